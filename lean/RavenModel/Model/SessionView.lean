import RavenModel.Model.Expunge
/-! The view of a session that keeps a mailbox selected while messages arrive from outside (deliveries, other sessions'
APPEND and COPY): what it has been told of (`EXISTS` when it asks — NOOP, IDLE — minus the `EXPUNGE` notices it received)
against the mailbox as it is. `HandleExpunge` / `handleUIDExpunge` number their notices in the mailbox as it is *now*; the
session applies them to what it has been told. -/
namespace Raven.SessionView
open Raven Raven.Mail

structure St where
  srv : List Link      -- the selected mailbox as it is, ascending UID
  view : List Link     -- what the session has been told of
deriving Repr

inductive Ev where
  | arrive (l : Link)                 -- a message is added by someone else (at the end: UIDs ascend)
  | noop                              -- NOOP / an IDLE poll: `* n EXISTS` when the mailbox has grown
  | expunge (doomed : Link → Bool)    -- the session's own EXPUNGE / UID EXPUNGE

/-- the notices of an expunge as the code numbers them: ranks in the mailbox as it is -/
def expungeNotices (s : St) (doomed : Link → Bool) : List Nat := notices doomed 1 0 s.srv

/-- the code before repair 525a68f: the notices go out as they are -/
def stepOld (s : St) : Ev → St
  | .arrive l => { s with srv := s.srv ++ [l] }
  | .noop => { s with view := s.srv }
  | .expunge d => { srv := s.srv.filter (fun l => !d l), view := replay s.view (expungeNotices s d) }

/-- since the repair the command loop sends the pending `* n EXISTS` before it dispatches EXPUNGE / UID EXPUNGE: the session
knows the whole mailbox when the notices come -/
def step (s : St) : Ev → St
  | .arrive l => { s with srv := s.srv ++ [l] }
  | .noop => { s with view := s.srv }
  | .expunge d => { srv := s.srv.filter (fun l => !d l), view := replay s.srv (expungeNotices s d) }

def run (s : St) (evs : List Ev) : St := evs.foldl step s

/-- can a (strict) client apply the notices, one after the other, to a view of `n` messages? -/
def applicable : Nat → List Nat → Bool
  | _, [] => true
  | n, k :: ks => 1 ≤ k && k ≤ n && applicable (n - 1) ks

/-- the session's view is the front of the mailbox (what arrived since is behind it) -/
def Inv (s : St) : Prop := ∃ extra, s.srv = s.view ++ extra

theorem inv_select (xs : List Link) : Inv ⟨xs, xs⟩ := ⟨[], by simp⟩

/-- notices for a list that is all kept stay empty -/
theorem notices_none (doomed : Link → Bool) : ∀ (xs : List Link) (r k : Nat), (∀ l ∈ xs, doomed l = false) →
    notices doomed r k xs = []
  | [], _, _, _ => rfl
  | x :: xs, r, k, h => by
    simp only [notices, h x (by simp), Bool.false_eq_true, if_false]
    exact notices_none doomed xs (r + 1) k (fun l hl => h l (by simp [hl]))

theorem notices_append (doomed : Link → Bool) : ∀ (xs ys : List Link) (r k : Nat), (∀ l ∈ ys, doomed l = false) →
    notices doomed r k (xs ++ ys) = notices doomed r k xs
  | [], ys, r, k, h => by simp [notices, notices_none doomed ys r k h]
  | x :: xs, ys, r, k, h => by
    simp only [List.cons_append, notices]
    split
    · rw [notices_append doomed xs ys (r + 1) (k + 1) h]
    · exact notices_append doomed xs ys (r + 1) k h

/-- the notices of an expunge over a view of which `kept` have been passed are applicable to it -/
theorem applicable_notices (doomed : Link → Bool) : ∀ (xs : List Link) (kept r k : Nat), r = kept + k + 1 →
    applicable (kept + xs.length) (notices doomed r k xs) = true
  | [], _, _, _, _ => rfl
  | x :: xs, kept, r, k, hr => by
    simp only [notices]
    split
    · simp only [applicable, Bool.and_eq_true, decide_eq_true_eq, List.length_cons]
      refine ⟨⟨by omega, by omega⟩, ?_⟩
      have := applicable_notices doomed xs kept (r + 1) (k + 1) (by omega)
      have he : kept + (xs.length + 1) - 1 = kept + xs.length := by omega
      rw [he]; exact this
    · have := applicable_notices doomed xs (kept + 1) (r + 1) k (by omega)
      simp only [List.length_cons]
      have he : kept + (xs.length + 1) = kept + 1 + xs.length := by omega
      rw [he]; exact this

/-- **partial** (hypothesis: nothing that arrived since the session's last update is among the doomed): the notices are
applicable to the session's view, and applying them gives the front of the mailbox as it is afterwards -/
theorem expunge_known_partial (s : St) (d : Link → Bool) (extra : List Link) (hs : s.srv = s.view ++ extra)
    (hx : ∀ l ∈ extra, d l = false) :
    applicable s.view.length (expungeNotices s d) = true ∧ Inv (stepOld s (.expunge d)) := by
  have hn : expungeNotices s d = notices d 1 0 s.view := by
    unfold expungeNotices; rw [hs]; exact notices_append d s.view extra 1 0 hx
  refine ⟨?_, ?_⟩
  · rw [hn]
    have := applicable_notices d s.view 0 1 0 (by omega)
    simpa using this
  · refine ⟨extra, ?_⟩
    simp only [stepOld, hn, expunge_replay, hs, List.filter_append]
    congr 1
    apply List.filter_eq_self.mpr
    intro l hl; simp [hx l hl]

theorem inv_step_arrive (s : St) (l : Link) (h : Inv s) : Inv (step s (.arrive l)) := by
  obtain ⟨e, he⟩ := h
  exact ⟨e ++ [l], by simp [step, he]⟩

theorem noop_syncs (s : St) : (step s .noop).view = (step s .noop).srv := rfl

/-- the statement for the code before the repair: whatever arrived and whatever is doomed, the notices of the session's own
EXPUNGE are applicable to what it has been told of -/
def notices_applicable_old : Prop :=
  ∀ (s : St), Inv s → ∀ d, applicable s.view.length (expungeNotices s d) = true

/-- …refuted: one message known, a second one arrives and is flagged \\Deleted by another session, the session expunges
without having asked: `* 2 EXPUNGE` for a client that has been told of one message. -/
theorem notices_applicable_old_refuted : ¬ notices_applicable_old := by
  intro h
  have := h ⟨[⟨1, 1, []⟩, ⟨2, 2, []⟩], [⟨1, 1, []⟩]⟩ ⟨[⟨2, 2, []⟩], rfl⟩ (fun l => l.uid == 2)
  revert this; decide

/-- **since the repair**, for every state: the notices of the session's own EXPUNGE are applicable to what it has been told
of by then (the whole mailbox), and applying them gives exactly the mailbox as it is afterwards -/
theorem expunge_view (s : St) (d : Link → Bool) :
    applicable s.srv.length (expungeNotices s d) = true ∧ (step s (.expunge d)).view = (step s (.expunge d)).srv := by
  refine ⟨?_, ?_⟩
  · have := applicable_notices d s.srv 0 1 0 (by omega)
    simpa [expungeNotices] using this
  · simp [step, expungeNotices, expunge_replay]

theorem inv_step (s : St) (e : Ev) (h : Inv s) : Inv (step s e) := by
  cases e with
  | arrive l => exact inv_step_arrive s l h
  | noop => exact ⟨[], by simp [step]⟩
  | expunge d => exact ⟨[], by simp [(expunge_view s d).2]⟩

/-- for every interleaving of arrivals, the session's own expunges and its polls: what the session has been told of is always
the front of the mailbox, and right after a poll or an expunge it is the whole mailbox -/
theorem inv_run (s : St) (evs : List Ev) (h : Inv s) : Inv (run s evs) := by
  induction evs generalizing s with
  | nil => exact h
  | cons e es ih => exact ih (step s e) (inv_step s e h)

end Raven.SessionView
