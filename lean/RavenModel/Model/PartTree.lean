import RavenModel.Base.Bytes
/-! MIME part tree ⇄ flat part rows: `parser.parseMultipart` + `StoreMessagePerUserWithSharedDBAndS3` flatten the tree (pre-order,
parent = array index, relative part numbers), `ReconstructMessage…` / `mapIMAPPartPathToDBPart` read it back (children by
parent id, ordered by part number, DFS). C02 tree_roundtrip, C14 mapPath. -/
namespace Raven.PartTree

abbrev Attrs := List UInt8   -- media type, charset, file name, content-id, transfer encoding, content: one canonical octet string

inductive Tree where
  | leaf (a : Attrs) : Tree
  | multi (a : Attrs) (cs : List Tree) : Tree
deriving Repr

structure Row where
  parent : Option Nat      -- array index of the parent part (parser.parseMultipart)
  num : Nat                -- relative part number (StoreMessagePerUser…)
  a : Attrs
  isMulti : Bool
deriving Repr, DecidableEq

mutual
def size : Tree → Nat
  | .leaf _ => 1
  | .multi _ cs => 1 + sizeList cs
def sizeList : List Tree → Nat
  | [] => 0
  | t :: ts => size t + sizeList ts
end

mutual
/-- pre-order flattening; `base` = array index the node will get -/
def flat (base : Nat) (parent : Option Nat) (num : Nat) : Tree → List Row
  | .leaf a => [⟨parent, num, a, false⟩]
  | .multi a cs => ⟨parent, num, a, true⟩ :: flatList (base+1) base 1 cs
def flatList (base : Nat) (pidx : Nat) (num : Nat) : List Tree → List Row
  | [] => []
  | t :: ts => flat base (some pidx) num t ++ flatList (base + size t) pidx (num+1) ts
end

def flatten (t : Tree) : List Row := flat 0 none 1 t

/-- indices (with part numbers) of the rows whose parent is `i`, scanning from index `k` -/
def kids (i : Nat) : List Row → Nat → List (Nat × Nat)
  | [], _ => []
  | r :: rs, k => if r.parent = some i then (k, r.num) :: kids i rs (k+1) else kids i rs (k+1)

def insertBy (x : Nat × Nat) : List (Nat × Nat) → List (Nat × Nat)
  | [] => [x]
  | y :: ys => if x.2 < y.2 then x :: y :: ys else y :: insertBy x ys
def sortByNum : List (Nat × Nat) → List (Nat × Nat)
  | [] => []
  | x :: xs => insertBy x (sortByNum xs)

/-- children of part `i`: by parent id, ordered by part_number (ReconstructMessage… / mapIMAPPartPathToDBPart) -/
def childIdxs (rows : List Row) (i : Nat) : List Nat := (sortByNum (kids i rows 0)).map (·.1)

def treeAt (rows : List Row) : Nat → Nat → Option Tree
  | 0, _ => none
  | f+1, i =>
    match rows[i]? with
    | none => none
    | some r =>
      if r.isMulti then ((childIdxs rows i).mapM (treeAt rows f)).map (Tree.multi r.a)
      else some (.leaf r.a)

def rebuild (rows : List Row) : Option Tree := treeAt rows rows.length 0


/-! ### lemmas -/

def rootRow (p : Option Nat) (n : Nat) : Tree → Row
  | .leaf a => ⟨p, n, a, false⟩
  | .multi a _ => ⟨p, n, a, true⟩
def flatTail (b : Nat) : Tree → List Row
  | .leaf _ => []
  | .multi _ cs => flatList (b+1) b 1 cs

theorem flat_eq (b p n) (t : Tree) : flat b p n t = rootRow p n t :: flatTail b t := by
  cases t <;> simp [flat, rootRow, flatTail]

mutual
theorem flat_length (b p n) : ∀ t : Tree, (flat b p n t).length = size t
  | .leaf _ => by simp [flat, size]
  | .multi _ cs => by simp [flat, size, flatList_length (b+1) b 1 cs]; omega
theorem flatList_length (b pi n) : ∀ ts : List Tree, (flatList b pi n ts).length = sizeList ts
  | [] => by simp [flatList, sizeList]
  | t :: ts => by simp [flatList, sizeList, flat_length b (some pi) n t, flatList_length (b + size t) pi (n+1) ts]
end

theorem size_pos : ∀ t : Tree, 0 < size t
  | .leaf _ => by simp [size]
  | .multi _ _ => by simp [size]; omega

theorem flatTail_length (b) (t : Tree) : (flatTail b t).length + 1 = size t := by
  have := flat_length b none 0 t
  rw [flat_eq] at this; simpa using this

/-- rows below a node point inside the node's index range -/
def Inside (lo hi : Nat) (r : Row) : Prop := ∃ k, r.parent = some k ∧ lo ≤ k ∧ k < hi

mutual
theorem flatTail_inside (b : Nat) : ∀ t : Tree, ∀ r ∈ flatTail b t, Inside b (b + size t) r
  | .leaf _ => by intro r hr; simp [flatTail] at hr
  | .multi _ cs => by
    intro r hr
    simp only [flatTail] at hr
    rcases flatList_inside (b+1) b 1 cs r hr with h | ⟨k, hk, h1, h2⟩
    · exact ⟨b, h, Nat.le_refl _, by simp [size]; omega⟩
    · exact ⟨k, hk, by omega, by simp only [size]; omega⟩
theorem flatList_inside (b pi n : Nat) : ∀ ts : List Tree, ∀ r ∈ flatList b pi n ts,
    r.parent = some pi ∨ Inside b (b + sizeList ts) r
  | [] => by intro r hr; simp [flatList] at hr
  | t :: ts => by
    intro r hr
    simp only [flatList, List.mem_append, flat_eq, List.mem_cons] at hr
    rcases hr with (rfl | hr) | hr
    · left; cases t <;> rfl
    · right
      obtain ⟨k, hk, h1, h2⟩ := flatTail_inside b t r hr
      exact ⟨k, hk, h1, by simp only [sizeList]; omega⟩
    · rcases flatList_inside (b + size t) pi (n+1) ts r hr with h | ⟨k, hk, h1, h2⟩
      · exact Or.inl h
      · right; exact ⟨k, hk, by omega, by simp only [sizeList]; omega⟩
end

theorem kids_append (i : Nat) (a b : List Row) (k : Nat) :
    kids i (a ++ b) k = kids i a k ++ kids i b (k + a.length) := by
  induction a generalizing k with
  | nil => simp [kids]
  | cons r rs ih =>
    simp only [List.cons_append, kids, List.length_cons]
    split
    · simp [ih, Nat.add_assoc, Nat.add_comm 1]
    · simp [ih, Nat.add_assoc, Nat.add_comm 1]

theorem kids_none (i : Nat) (rs : List Row) (k : Nat) (h : ∀ r ∈ rs, r.parent ≠ some i) : kids i rs k = [] := by
  induction rs generalizing k with
  | nil => rfl
  | cons r rs ih =>
    simp only [kids]
    rw [if_neg (h r (by simp))]
    exact ih _ (fun x hx => h x (by simp [hx]))

def rootPairs (b n : Nat) : List Tree → List (Nat × Nat)
  | [] => []
  | t :: ts => (b, n) :: rootPairs (b + size t) (n+1) ts

theorem kids_flatList (b pi n : Nat) (hpi : pi < b) : ∀ ts : List Tree,
    kids pi (flatList b pi n ts) b = rootPairs b n ts
  | [] => by simp [flatList, kids, rootPairs]
  | t :: ts => by
    simp only [flatList, flat_eq, List.cons_append, kids, rootPairs]
    have hroot : (rootRow (some pi) n t).parent = some pi := by cases t <;> rfl
    rw [if_pos hroot, kids_append]
    have htail : kids pi (flatTail b t) (b+1) = [] := by
      apply kids_none
      intro r hr heq
      obtain ⟨k, hk, h1, _⟩ := flatTail_inside b t r hr
      rw [hk] at heq; injection heq with heq; omega
    rw [htail, List.nil_append]
    have hlen : b + 1 + (flatTail b t).length = b + size t := by
      have := flatTail_length b t; omega
    have hnum : (rootRow (some pi) n t).num = n := by cases t <;> rfl
    rw [hlen, kids_flatList (b + size t) pi (n+1) (by omega) ts, hnum]

theorem rootPairs_lb (b n : Nat) : ∀ ts : List Tree, ∀ x ∈ rootPairs b n ts, n ≤ x.2
  | [] => by intro x hx; simp [rootPairs] at hx
  | t :: ts => by
    intro x hx
    simp only [rootPairs, List.mem_cons] at hx
    rcases hx with rfl | hx
    · simp
    · have := rootPairs_lb (b + size t) (n+1) ts x hx; omega

theorem insertBy_lt (x : Nat × Nat) (ys : List (Nat × Nat)) (h : ∀ y ∈ ys, x.2 < y.2) : insertBy x ys = x :: ys := by
  cases ys with
  | nil => rfl
  | cons y ys => simp [insertBy, h y (by simp)]

theorem sort_rootPairs (b n : Nat) : ∀ ts : List Tree, sortByNum (rootPairs b n ts) = rootPairs b n ts
  | [] => rfl
  | t :: ts => by
    simp only [rootPairs, sortByNum, sort_rootPairs (b + size t) (n+1) ts]
    apply insertBy_lt
    intro y hy
    have := rootPairs_lb (b + size t) (n+1) ts y hy
    simp only; omega

/-- context condition: rows outside the block [lo, hi) never point into it -/
def Outside (lo hi : Nat) (r : Row) : Prop := ∀ k, r.parent = some k → k < lo ∨ hi ≤ k

theorem getElem?_mid (pre : List Row) (x : Row) (post : List Row) : (pre ++ x :: post)[pre.length]? = some x := by
  simp

/- `Rep rows i t`: the rows, read the way the server reads them (children by parent id, ordered by part
    number), represent tree `t` at index `i` -/
mutual
def Rep (rows : List Row) : Nat → Tree → Prop
  | i, .leaf a => (∃ p n, rows[i]? = some ⟨p, n, a, false⟩) ∧ childIdxs rows i = []
  | i, .multi a cs => (∃ p n, rows[i]? = some ⟨p, n, a, true⟩) ∧ ∃ js, childIdxs rows i = js ∧ RepList rows js cs
def RepList (rows : List Row) : List Nat → List Tree → Prop
  | [], [] => True
  | j :: js, t :: ts => Rep rows j t ∧ RepList rows js ts
  | _, _ => False
end

mutual
theorem rep_flat : ∀ (t : Tree) (pre post : List Row) (p : Option Nat) (n : Nat),
    (∀ k, p = some k → k < pre.length) →
    (∀ r ∈ pre ++ post, Outside pre.length (pre.length + size t) r) →
    Rep (pre ++ flat pre.length p n t ++ post) pre.length t
  | .leaf a, pre, post, p, n, hp, hctx => by
    simp only [Rep, flat]
    refine ⟨⟨p, n, by simp⟩, ?_⟩
    unfold childIdxs
    have : kids pre.length (pre ++ [(⟨p, n, a, false⟩ : Row)] ++ post) 0 = [] := by
      apply kids_none
      intro r hr heq
      simp only [List.mem_append, List.mem_singleton] at hr
      rcases hr with (hr | rfl) | hr
      · have := hctx r (by simp [hr]) _ heq; simp only [size] at this; omega
      · have := hp _ heq; omega
      · have := hctx r (by simp [hr]) _ heq; simp only [size] at this; omega
    rw [this]; rfl
  | .multi a cs, pre, post, p, n, hp, hctx => by
    have hrows : pre ++ flat pre.length p n (.multi a cs) ++ post
        = (pre ++ [⟨p, n, a, true⟩]) ++ flatList (pre.length + 1) pre.length 1 cs ++ post := by
      simp [flat]
    have hget : (pre ++ flat pre.length p n (.multi a cs) ++ post)[pre.length]? = some ⟨p, n, a, true⟩ := by
      simp [flat]
    have hkids : childIdxs (pre ++ flat pre.length p n (.multi a cs) ++ post) pre.length
        = (rootPairs (pre.length + 1) 1 cs).map (·.1) := by
      unfold childIdxs
      rw [hrows, kids_append, kids_append, kids_append]
      have h1 : kids pre.length pre 0 = [] := by
        apply kids_none; intro r hr heq
        have := hctx r (by simp [hr]) _ heq
        have := size_pos (.multi a cs); omega
      have h2 : kids pre.length [(⟨p, n, a, true⟩ : Row)] (0 + pre.length) = [] := by
        apply kids_none; intro r hr heq
        simp only [List.mem_singleton] at hr; subst hr
        have := hp _ heq; omega
      have h4 : ∀ k, kids pre.length post k = [] := by
        intro k; apply kids_none; intro r hr heq
        have := hctx r (by simp [hr]) _ heq
        have := size_pos (.multi a cs); omega
      rw [h1, h2, h4]
      simp only [List.nil_append, List.append_nil, List.length_append, List.length_cons, List.length_nil, Nat.zero_add]
      rw [kids_flatList (pre.length + 1) pre.length 1 (by omega) cs, sort_rootPairs]
    refine ⟨⟨p, n, hget⟩, _, hkids, ?_⟩
    have hlist := repList_flat cs (pre ++ [⟨p, n, a, true⟩]) post pre.length 1
      (by simp) (by
        intro r hr k hk
        simp only [List.mem_append, List.mem_singleton, List.length_append, List.length_cons, List.length_nil] at hr ⊢
        rcases hr with (hr | rfl) | hr
        · rcases hctx r (by simp [hr]) k hk with h | h
          · left; omega
          · right; simp only [size] at h; omega
        · left; have := hp k hk; omega
        · rcases hctx r (by simp [hr]) k hk with h | h
          · left; omega
          · right; simp only [size] at h; omega)
    rw [hrows]
    simpa using hlist
theorem repList_flat : ∀ (ts : List Tree) (pre post : List Row) (pi n : Nat),
    pi < pre.length →
    (∀ r ∈ pre ++ post, Outside pre.length (pre.length + sizeList ts) r) →
    RepList (pre ++ flatList pre.length pi n ts ++ post) ((rootPairs pre.length n ts).map (·.1)) ts
  | [], pre, post, pi, n, _, _ => by simp [rootPairs, RepList]
  | t :: ts, pre, post, pi, n, hpi, hctx => by
    simp only [rootPairs, List.map_cons, RepList]
    have hrows1 : pre ++ flatList pre.length pi n (t :: ts) ++ post
        = pre ++ flat pre.length (some pi) n t ++ (flatList (pre.length + size t) pi (n+1) ts ++ post) := by
      simp [flatList]
    have hhead := rep_flat t pre (flatList (pre.length + size t) pi (n+1) ts ++ post) (some pi) n
      (by intro k hk; injection hk with hk; omega)
      (by
        intro r hr k hk
        simp only [List.mem_append] at hr
        rcases hr with hr | hr | hr
        · rcases hctx r (by simp [hr]) k hk with h | h
          · left; exact h
          · right; simp only [sizeList] at h; omega
        · rcases flatList_inside (pre.length + size t) pi (n+1) ts r hr with h | ⟨k', hk', h1, _⟩
          · rw [h] at hk; injection hk with hk; left; omega
          · rw [hk'] at hk; injection hk with hk; right; omega
        · rcases hctx r (by simp [hr]) k hk with h | h
          · left; exact h
          · right; simp only [sizeList] at h; omega)
    have hrows2 : pre ++ flat pre.length (some pi) n t ++ (flatList (pre.length + size t) pi (n+1) ts ++ post)
        = (pre ++ flat pre.length (some pi) n t) ++ flatList (pre ++ flat pre.length (some pi) n t).length pi (n+1) ts ++ post := by
      simp [flat_length]
    have htail := repList_flat ts (pre ++ flat pre.length (some pi) n t) post pi (n+1)
      (by simp; omega)
      (by
        intro r hr k hk
        simp only [List.mem_append, List.length_append, flat_length] at hr ⊢
        rcases hr with (hr | hr) | hr
        · rcases hctx r (by simp [hr]) k hk with h | h
          · left; omega
          · right; simp only [sizeList] at h; omega
        · rw [flat_eq] at hr
          simp only [List.mem_cons] at hr
          rcases hr with rfl | hr
          · have : (rootRow (some pi) n t).parent = some pi := by cases t <;> rfl
            rw [this] at hk; injection hk with hk; left; omega
          · obtain ⟨k', hk', _, h2⟩ := flatTail_inside pre.length t r hr
            rw [hk'] at hk; injection hk with hk; left; omega
        · rcases hctx r (by simp [hr]) k hk with h | h
          · left; omega
          · right; simp only [sizeList] at h; omega)
    rw [hrows1]
    refine ⟨hhead, ?_⟩
    rw [hrows2]
    simpa [flat_length] using htail
end

/- reading a represented tree back -/
mutual
theorem treeAt_of_rep (rows : List Row) : ∀ (t : Tree) (i f : Nat), Rep rows i t → size t ≤ f → treeAt rows f i = some t
  | .leaf a, i, f, h, hf => by
    cases f with
    | zero => simp [size] at hf
    | succ f =>
      obtain ⟨⟨p, n, hg⟩, _⟩ := h
      simp [treeAt, hg]
  | .multi a cs, i, f, h, hf => by
    cases f with
    | zero => simp [size] at hf
    | succ f =>
      obtain ⟨⟨p, n, hg⟩, js, hk, hl⟩ := h
      have := mapM_of_repList rows cs js f hl (by simp only [size] at hf; omega)
      simp [treeAt, hg, hk, this]
theorem mapM_of_repList (rows : List Row) : ∀ (ts : List Tree) (js : List Nat) (f : Nat), RepList rows js ts → sizeList ts ≤ f →
    js.mapM (treeAt rows f) = some ts
  | [], [], f, _, _ => by simp
  | [], _ :: _, _, h, _ => by simp [RepList] at h
  | _ :: _, [], _, h, _ => by simp [RepList] at h
  | t :: ts, j :: js, f, h, hf => by
    obtain ⟨h1, h2⟩ := h
    have a := treeAt_of_rep rows t j f h1 (by simp only [sizeList] at hf; omega)
    have b := mapM_of_repList rows ts js f h2 (by simp only [sizeList] at hf; omega)
    simp [List.mapM_cons, a, b]
end

theorem rep_flatten (t : Tree) : Rep (flatten t) 0 t := by
  have := rep_flat t [] [] none 1 (by simp) (by simp)
  simpa [flatten] using this

/-- C02.2: the stored rows determine the submitted tree, for every tree of any depth and width -/
theorem rebuild_flatten (t : Tree) : rebuild (flatten t) = some t := by
  unfold rebuild
  exact treeAt_of_rep _ t 0 _ (rep_flatten t) (by simp [flatten, flat_length])

/-! ### C14: IMAP section paths (mapIMAPPartPathToDBPart) -/

/-- spec: IMAP part addressing on the submitted tree (1-based) -/
def childAt : Tree → Nat → Option Tree
  | .multi _ cs, i => if i = 0 then none else cs[i-1]?
  | .leaf _, _ => none
def descend : Tree → List Nat → Option Tree
  | t, [] => some t
  | t, i :: is => (childAt t i).bind (fun c => descend c is)
def subtreeAt : Tree → List Nat → Option Tree
  | _, [] => none
  | .leaf a, i :: is => if i = 1 then descend (.leaf a) is else none
  | .multi a cs, i :: is => (childAt (.multi a cs) i).bind (fun c => descend c is)

/-- model: follow child index lists in the rows -/
def rowChildAt (rows : List Row) (idx i : Nat) : Option Nat :=
  if i = 0 then none else (childIdxs rows idx)[i-1]?
def rowDescend (rows : List Row) : Nat → List Nat → Option Nat
  | idx, [] => some idx
  | idx, i :: is => (rowChildAt rows idx i).bind (fun c => rowDescend rows c is)
/-- the root container is invisible; a single non-multipart root is part 1 -/
def mapPath (rows : List Row) : List Nat → Option Nat
  | [] => none
  | i :: is =>
    match rows[0]? with
    | none => none
    | some r =>
      if r.isMulti then (rowChildAt rows 0 i).bind (fun c => rowDescend rows c is)
      else if i = 1 then rowDescend rows 0 is else none

theorem repList_get (rows : List Row) : ∀ (ts : List Tree) (js : List Nat), RepList rows js ts → ∀ k : Nat,
    match js[k]?, ts[k]? with
    | some j, some t => Rep rows j t
    | none, none => True
    | _, _ => False
  | [], [], _, k => by simp
  | [], _ :: _, h, _ => by simp [RepList] at h
  | _ :: _, [], h, _ => by simp [RepList] at h
  | t :: ts, j :: js, h, k => by
    cases k with
    | zero => simpa using h.1
    | succ k => simpa using repList_get rows ts js h.2 k

/-- following a path in the rows = following it in the tree -/
theorem rowDescend_correct (rows : List Row) : ∀ (is : List Nat) (t : Tree) (idx : Nat), Rep rows idx t →
    match rowDescend rows idx is, descend t is with
    | some j, some s => Rep rows j s
    | none, none => True
    | _, _ => False
  | [], t, idx, h => by simpa [rowDescend, descend] using h
  | i :: is, .leaf a, idx, h => by
    obtain ⟨_, hk⟩ := h
    simp [rowDescend, descend, rowChildAt, childAt, hk]
  | i :: is, .multi a cs, idx, h => by
    obtain ⟨_, js, hk, hl⟩ := h
    simp only [rowDescend, descend, rowChildAt, childAt, hk]
    by_cases hi : i = 0
    · simp [hi]
    · simp only [hi, if_false]
      have := repList_get rows cs js hl (i-1)
      cases hj : js[i-1]? with
      | none =>
        cases ht : cs[i-1]? with
        | none => simp
        | some t' => simp only [hj, ht] at this
      | some j =>
        cases ht : cs[i-1]? with
        | none => simp only [hj, ht] at this
        | some t' =>
          simp only [hj, ht] at this
          simp only [Option.bind_some]
          exact rowDescend_correct rows is _ _ this

/-- C14: the section path addresses, in the stored rows, exactly the part it addresses in the submitted
    message; a path absent from the message yields nothing -/
theorem mapPath_flatten (t : Tree) (path : List Nat) :
    match mapPath (flatten t) path, subtreeAt t path with
    | some j, some s => Rep (flatten t) j s
    | none, none => True
    | _, _ => False := by
  have hrep := rep_flatten t
  cases path with
  | nil => simp [mapPath, subtreeAt]
  | cons i is =>
    cases t with
    | leaf a =>
      obtain ⟨⟨p, n, hg⟩, _⟩ := hrep
      simp only [mapPath, hg, subtreeAt]
      by_cases hi : i = 1
      · simp only [hi, if_true, Bool.false_eq_true, if_false]
        exact rowDescend_correct _ is (.leaf a) 0 (rep_flatten (.leaf a))
      · simp [hi]
    | multi a cs =>
      have h := rowDescend_correct (flatten (.multi a cs)) (i :: is) (.multi a cs) 0 hrep
      obtain ⟨⟨p, n, hg⟩, _⟩ := hrep
      simp only [mapPath, hg, subtreeAt, if_true]
      simpa [rowDescend, descend] using h
end Raven.PartTree
