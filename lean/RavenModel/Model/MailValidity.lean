import RavenModel.Model.MailMono
/-! UIDVALIDITY is never issued twice (the store's `uid_validity_seq`, repair 090198b): every mailbox of a later store either
descends from a mailbox of the earlier store — same incarnation, same UIDVALIDITY — or carries a UIDVALIDITY larger than every
value the earlier store had issued. Together with the per-store invariant (no value above the counter, one incarnation per
value) this makes `(name, UIDVALIDITY)` — indeed UIDVALIDITY alone — identify an incarnation across the whole history. -/
namespace Raven.Mail
open Raven Raven.GoStr Raven.Flags Raven.SeqSet

/-- per store: no UIDVALIDITY above the counter, and a UIDVALIDITY belongs to one incarnation -/
structure VInv (s : Store) : Prop where
  bound : ∀ b ∈ s.boxes, b.validity ≤ s.vseq
  inj : ∀ b ∈ s.boxes, ∀ c ∈ s.boxes, b.validity = c.validity → b.inc = c.inc

def VDesc (s s' : Store) : Prop :=
  s.vseq ≤ s'.vseq ∧
  ∀ b' ∈ s'.boxes, (∃ b ∈ s.boxes, b.inc = b'.inc ∧ b.validity = b'.validity) ∨ s.vseq < b'.validity

/-- one operation (or several): the invariant is kept and the later store descends from the earlier -/
def VStep (s s' : Store) : Prop := VInv s → VInv s' ∧ VDesc s s'

theorem VDesc.refl (s : Store) : VDesc s s := ⟨Nat.le_refl _, fun b hb => Or.inl ⟨b, hb, rfl, rfl⟩⟩

theorem VDesc.trans {a b c : Store} (h1 : VDesc a b) (h2 : VDesc b c) : VDesc a c := by
  refine ⟨Nat.le_trans h1.1 h2.1, ?_⟩
  intro x hx
  rcases h2.2 x hx with ⟨y, hy, hinc, hv⟩ | hnew
  · rcases h1.2 y hy with ⟨z, hz, hinc', hv'⟩ | hnew'
    · exact Or.inl ⟨z, hz, hinc'.trans hinc, hv'.trans hv⟩
    · exact Or.inr (by omega)
  · exact Or.inr (Nat.lt_of_le_of_lt h1.1 hnew)

theorem VStep.refl (s : Store) : VStep s s := fun h => ⟨h, VDesc.refl s⟩

theorem VStep.trans {a b c : Store} (h1 : VStep a b) (h2 : VStep b c) : VStep a c := fun ha =>
  let ⟨hb, d1⟩ := h1 ha
  let ⟨hc, d2⟩ := h2 hb
  ⟨hc, VDesc.trans d1 d2⟩

/-- changing mailboxes in place, keeping their incarnation and UIDVALIDITY -/
theorem vstep_mapBoxes (s : Store) (f : Mbox → Mbox) (lg : List Entry) (sb : List Bytes)
    (hf : ∀ b, (f b).inc = b.inc ∧ (f b).validity = b.validity) :
    VStep s { s with boxes := s.boxes.map f, log := lg, subs := sb } := by
  intro hi
  refine ⟨⟨?_, ?_⟩, Nat.le_refl _, ?_⟩
  · intro b' hb'
    obtain ⟨b, hb, rfl⟩ := List.mem_map.mp hb'
    simpa [(hf b).2] using hi.bound b hb
  · intro b' hb' c' hc' hv
    obtain ⟨b, hb, rfl⟩ := List.mem_map.mp hb'
    obtain ⟨c, hc, rfl⟩ := List.mem_map.mp hc'
    rw [(hf b).1, (hf c).1]
    exact hi.inj b hb c hc (by rw [← (hf b).2, ← (hf c).2]; exact hv)
  · intro b' hb'
    obtain ⟨b, hb, rfl⟩ := List.mem_map.mp hb'
    exact Or.inl ⟨b, hb, (hf b).1.symm, (hf b).2.symm⟩

theorem vstep_modify (s : Store) (n : Bytes) (f : Mbox → Mbox) (hf : ∀ b, (f b).inc = b.inc ∧ (f b).validity = b.validity) :
    VStep s (s.modify n f) := by
  have := vstep_mapBoxes s (fun b => if b.name = n then f b else b) s.log s.subs (by
    intro b; by_cases h : b.name = n <;> simp [h, hf b])
  simpa [Store.modify] using this

theorem vstep_log (s : Store) (lg : List Entry) : VStep s { s with log := lg } := fun hi =>
  ⟨⟨hi.bound, hi.inj⟩, Nat.le_refl _, fun b hb => Or.inl ⟨b, hb, rfl, rfl⟩⟩

theorem vstep_subs (s : Store) (x : List Bytes) : VStep s { s with subs := x } := fun hi =>
  ⟨⟨hi.bound, hi.inj⟩, Nat.le_refl _, fun b hb => Or.inl ⟨b, hb, rfl, rfl⟩⟩

/-- removing mailboxes -/
theorem vstep_filter (s : Store) (p : Mbox → Bool) (sb : List Bytes) :
    VStep s { s with boxes := s.boxes.filter p, subs := sb } := fun hi =>
  ⟨⟨fun b hb => hi.bound b (List.mem_filter.mp hb).1,
    fun b hb c hc => hi.inj b (List.mem_filter.mp hb).1 c (List.mem_filter.mp hc).1⟩,
   Nat.le_refl _, fun b hb => Or.inl ⟨b, (List.mem_filter.mp hb).1, rfl, rfl⟩⟩

theorem freshValidity_gt (s : Store) (now : Nat) : s.vseq < s.freshValidity now := by
  unfold Store.freshValidity; omega

/-- a new mailbox: kept mailboxes (possibly rewritten in place) plus one with a fresh UIDVALIDITY -/
theorem vstep_addBox (s : Store) (f : Mbox → Mbox) (nb : Mbox) (now : Nat) (ni : Nat) (lg : List Entry)
    (hf : ∀ b, (f b).inc = b.inc ∧ (f b).validity = b.validity) (hv : nb.validity = s.freshValidity now) :
    VStep s { s with boxes := s.boxes.map f ++ [nb], nextInc := ni, log := lg, vseq := s.freshValidity now } := by
  intro hi
  have hgt := freshValidity_gt s now
  refine ⟨⟨?_, ?_⟩, Nat.le_of_lt hgt, ?_⟩
  · intro b' hb'
    simp only [List.mem_append, List.mem_map, List.mem_singleton] at hb'
    rcases hb' with ⟨b, hb, rfl⟩ | rfl
    · have := hi.bound b hb
      simp only [(hf b).2]; omega
    · simp [hv]
  · intro b' hb' c' hc' hvv
    simp only [List.mem_append, List.mem_map, List.mem_singleton] at hb' hc'
    rcases hb' with ⟨b, hb, rfl⟩ | rfl <;> rcases hc' with ⟨c, hc, rfl⟩ | rfl
    · rw [(hf b).1, (hf c).1]
      exact hi.inj b hb c hc (by rw [← (hf b).2, ← (hf c).2]; exact hvv)
    · have := hi.bound b hb
      rw [(hf b).2, hv] at hvv; omega
    · have := hi.bound c hc
      rw [(hf c).2, hv] at hvv; omega
    · rfl
  · intro b' hb'
    simp only [List.mem_append, List.mem_map, List.mem_singleton] at hb'
    rcases hb' with ⟨b, hb, rfl⟩ | rfl
    · exact Or.inl ⟨b, hb, (hf b).1.symm, (hf b).2.symm⟩
    · exact Or.inr (by rw [hv]; exact hgt)

theorem vstep_add (s : Store) (n : Bytes) (msg : Nat) (fl : List Bytes) : VStep s (s.add n msg fl).1 := by
  unfold Store.add
  split
  · exact VStep.refl s
  · exact VStep.trans (vstep_modify s n _ (by intro b; simp [Mbox.push])) (vstep_log _ _)

theorem vstep_addMany (n : Bytes) : ∀ (items : List (Nat × List Bytes)) (s : Store), VStep s (s.addMany n items)
  | [], s => VStep.refl s
  | (m, fl) :: rest, s => by
    unfold Store.addMany
    exact VStep.trans (vstep_add s n m fl) (vstep_addMany n rest _)

theorem vstep_copy (s : Store) (src : Bytes) (ranks : List Nat) (dst : Bytes) : VStep s (s.copy src ranks dst).1 := by
  unfold Store.copy
  split
  · exact VStep.refl s
  · split
    · exact VStep.refl s
    · split
      · exact VStep.refl s
      · simp only []
        split
        · exact VStep.refl s
        · exact vstep_addMany _ _ _

theorem vstep_uidCopy (s : Store) (src : Bytes) (uids : List Nat) (dst : Bytes) : VStep s (s.uidCopy src uids dst).1 := by
  unfold Store.uidCopy
  split
  · exact VStep.refl s
  · split
    · exact VStep.refl s
    · split
      · exact VStep.refl s
      · exact vstep_addMany _ _ _

theorem vstep_move (s s' : Store) (src : Bytes) (l : Link) (dst : Bytes) (fl : List Bytes)
    (h : s.move src l dst fl = some s') : VStep s s' := by
  unfold Store.move at h
  split at h
  · cases h
  · split at h
    · cases h
    · simp only [Option.some.injEq] at h
      subst h
      exact VStep.trans (vstep_add s dst l.msg fl) (vstep_modify _ src _ (by intro b; simp))

theorem vstep_storeOne (s : Store) (box : Bytes) (l : Link) (rank : Nat) (new : List Bytes) (mode : Flags.Mode) :
    VStep s (s.storeOne box l rank new mode).1 := by
  have hset : ∀ (t : Store) (g : Link → Link), VStep t (t.modify box (fun b => { b with links := b.links.map g })) :=
    fun t g => vstep_modify t box _ (by intro b; simp)
  unfold Store.storeOne
  simp only []
  split
  · split
    · rename_i s' hm; exact vstep_move _ _ _ _ _ _ hm
    · exact hset s _
  · split
    · split
      · rename_i s' hm; exact vstep_move _ _ _ _ _ _ hm
      · exact hset s _
    · exact hset s _

theorem vstep_storeUid (box : Bytes) (new : List Bytes) (mode : Flags.Mode) :
    ∀ (uids : List Nat) (s : Store), VStep s (s.storeUid box new mode uids).1
  | [], s => VStep.refl s
  | u :: us, s => by
    unfold Store.storeUid
    split
    · exact vstep_storeUid box new mode us s
    · simp only []
      exact VStep.trans (vstep_storeOne s box _ _ new mode) (vstep_storeUid box new mode us _)

theorem vstep_storeSeq (s : Store) (box : Bytes) (new : List Bytes) (mode : Flags.Mode) (ranks : List Nat) :
    VStep s (s.storeSeq box new mode ranks).1 := by
  unfold Store.storeSeq
  split
  · exact VStep.refl s
  · exact vstep_storeUid box new mode _ s

theorem vstep_expungeBy (s : Store) (box : Bytes) (doomed : Link → Bool) : VStep s (s.expungeBy box doomed).1 := by
  unfold Store.expungeBy
  split
  · exact VStep.refl s
  · exact vstep_modify s box _ (by intro b; simp)

theorem vstep_newBox (s : Store) (n : Bytes) (now : Nat) : VStep s (s.newBox n now) := by
  unfold Store.newBox
  split
  · exact VStep.refl s
  · have := vstep_addBox s id { name := n, validity := s.freshValidity now, uidNext := 1, links := [], inc := s.nextInc } now
      (s.nextInc + 1) s.log (by intro b; simp) rfl
    simpa using this

theorem vstep_newBoxes (now : Nat) : ∀ (ns : List Bytes) (s : Store), VStep s (s.newBoxes ns now)
  | [], s => VStep.refl s
  | n :: ns, s => by
    unfold Store.newBoxes
    simp only [List.foldl_cons]
    exact VStep.trans (vstep_newBox s n now) (vstep_newBoxes now ns _)

theorem vstep_create (s : Store) (arg : Bytes) (now : Nat) : VStep s (s.create arg now).1 := by
  unfold Store.create
  simp only []
  split
  · exact VStep.refl s
  · split
    · exact VStep.refl s
    · split
      · exact VStep.refl s
      · split
        · exact VStep.refl s
        · exact VStep.trans (vstep_newBoxes now _ s) (vstep_newBox _ _ now)

theorem vstep_delete (s : Store) (arg : Bytes) : VStep s (s.delete arg).1 := by
  unfold Store.delete
  simp only []
  repeat' split
  all_goals first
    | exact VStep.refl s
    | exact vstep_filter s _ _

theorem vstep_rename (s : Store) (o n : Bytes) (now : Nat) : VStep s (s.rename o n now).1 := by
  unfold Store.rename
  simp only []
  split
  · exact VStep.refl s
  · split
    · exact VStep.refl s
    · split
      · exact VStep.refl s
      · split
        · split
          · exact VStep.refl s
          · split
            · exact VStep.refl s
            · rename_i ib hib
              exact vstep_addBox s (fun b => if b.name = inboxName then { b with links := [] } else b) _ now _ _
                (by intro b; by_cases h : b.name = inboxName <;> simp [h]) rfl
        · split
          · exact VStep.refl s
          · split
            · exact VStep.refl s
            · split
              · refine VStep.trans (vstep_newBoxes now (ancestors (trimQuotes n)) s) ?_
                have := vstep_mapBoxes (s.newBoxes (ancestors (trimQuotes n)) now)
                  (fun b => { b with name := renamedName (trimQuotes o) (trimQuotes n) b.name })
                  (s.newBoxes (ancestors (trimQuotes n)) now).log (s.newBoxes (ancestors (trimQuotes n)) now).subs (by intro b; simp)
                simpa using this
              · exact vstep_newBoxes now _ s

theorem vstep_subscribe (s : Store) (a : Bytes) : VStep s (s.subscribe a).1 := by
  unfold Store.subscribe
  simp only []
  split
  · exact VStep.refl s
  · split
    · exact VStep.refl s
    · exact vstep_subs s _

theorem vstep_unsubscribe (s : Store) (a : Bytes) : VStep s (s.unsubscribe a).1 := by
  unfold Store.unsubscribe
  simp only []
  split
  · exact VStep.refl s
  · split
    · exact vstep_subs s _
    · exact VStep.refl s

theorem vstep_step (s : Store) (op : Op) : VStep s (step s op) := by
  cases op with
  | add b m f => exact vstep_add s b m f
  | copy a r d => exact vstep_copy s a r d
  | uidCopy a u d => exact vstep_uidCopy s a u d
  | store b n m r => exact vstep_storeSeq s b n m r
  | uidStore b n m u => exact vstep_storeUid b n m u s
  | expunge b => exact vstep_expungeBy s b _
  | uidExpunge b u => exact vstep_expungeBy s b _
  | create a now => exact vstep_create s a now
  | delete a => exact vstep_delete s a
  | rename o n now => exact vstep_rename s o n now
  | subscribe a => exact vstep_subscribe s a
  | unsubscribe a => exact vstep_unsubscribe s a

theorem vstep_run : ∀ (ops : List Op) (s : Store), VStep s (run s ops)
  | [], s => VStep.refl s
  | op :: ops, s => by
    unfold run
    simp only [List.foldl_cons]
    exact VStep.trans (vstep_step s op) (vstep_run ops _)

theorem vinv_init (now : Nat) : VInv (Store.init now) := by
  refine ⟨?_, ?_⟩
  · intro b hb
    simp only [Store.init, defaultNames, List.zipIdx, List.map, List.mem_cons, List.not_mem_nil, or_false] at hb
    rcases hb with rfl | rfl | rfl | rfl | rfl <;> simp [Store.init, defaultNames]
  · intro b hb c hc hv
    simp only [Store.init, defaultNames, List.zipIdx, List.map, List.mem_cons, List.not_mem_nil, or_false] at hb hc
    rcases hb with rfl | rfl | rfl | rfl | rfl <;> rcases hc with rfl | rfl | rfl | rfl | rfl <;> simp at hv ⊢ <;> omega

theorem vinv_run (now : Nat) (ops : List Op) : VInv (run (Store.init now) ops) :=
  (vstep_run ops (Store.init now) (vinv_init now)).1

/-- **UIDVALIDITY identifies the incarnation, across the whole history**: a mailbox of an earlier store and a mailbox of any
continuation with the same UIDVALIDITY are the same incarnation -/
theorem validity_identifies_incarnation (now : Nat) (ops more : List Op) :
    ∀ b ∈ (run (Store.init now) ops).boxes, ∀ b' ∈ (run (Store.init now) (ops ++ more)).boxes,
      b.validity = b'.validity → b.inc = b'.inc := by
  have hrun : run (Store.init now) (ops ++ more) = run (run (Store.init now) ops) more := by simp [run, List.foldl_append]
  rw [hrun]
  intro b hb b' hb' hv
  have hi := vinv_run now ops
  obtain ⟨_, hd⟩ := vstep_run more (run (Store.init now) ops) hi
  rcases hd.2 b' hb' with ⟨b0, hb0, hinc, hv0⟩ | hnew
  · rw [← hinc]; exact hi.inj b hb b0 hb0 (hv.trans hv0.symm)
  · have := hi.bound b hb; omega

end Raven.Mail
