import RavenModel.Model.ListMatch
import RavenModel.Base.GoStr
/-! `HandleLsub` (internal/server/mailbox/mailbox.go): the subscribed names that match reference + pattern, and — for patterns
with `%` — the *implied parents*: names that are not subscribed themselves but have a subscribed descendant, shown as
`\Noselect` (RFC 3501 6.3.9). The code walks the leading components of every subscription; the specification is the set of
proper ancestors. -/
namespace Raven.Lsub
open Raven Raven.ListMatch Raven.GoStr

def slash : UInt8 := 47
def pct : UInt8 := 37

/-- the loop over `mailboxParts[:len-1]`: `a`, `a/b`, … for `a/b/c` -/
def leading (name : Bytes) : List Bytes :=
  let comps := splitOn slash name
  (List.range (comps.length - 1)).map (fun i => joinWith slash (comps.take (i + 1)))

/-- the implied parents `HandleLsub` announces as `\Noselect`, in the order it meets them, each once -/
def implied (subs : List Bytes) (ref pat : Bytes) : List Bytes :=
  if pat.contains pct then
    ((subs.filter (fun m => m.contains slash)).flatMap (fun m =>
      (leading m).filter (fun p => !subs.contains p && matchWildcard p (canonical ref pat)))).eraseDups
  else []

/-- everything LSUB lists: the subscribed matches (`FilterMailboxes`) and the implied parents -/
def shown (subs : List Bytes) (ref pat : Bytes) : List Bytes × List Bytes := (filter subs ref pat, implied subs ref pat)

/-- specification: `p` is a proper ancestor of `m` in the `/` hierarchy: `m = p ++ "/" ++ rest`, cut at a component boundary -/
def ProperAncestor (p m : Bytes) : Prop := p ∈ leading m

theorem mem_implied (subs : List Bytes) (ref pat p : Bytes) :
    p ∈ implied subs ref pat ↔
      pat.contains pct = true ∧ p ∉ subs ∧ MatchesCI (canonical ref pat) p ∧ ∃ m ∈ subs, ProperAncestor p m := by
  unfold implied
  split
  · rename_i hp
    simp only [List.mem_eraseDups, List.mem_flatMap, List.mem_filter, Bool.and_eq_true, Bool.not_eq_true',
      matchWildcard_iff, hp, true_and, ProperAncestor]
    constructor
    · rintro ⟨m, ⟨hm, _⟩, hpl, hns, hmatch⟩
      refine ⟨?_, hmatch, m, hm, hpl⟩
      intro hin
      have : subs.contains p = true := List.contains_iff_mem.mpr hin
      rw [hns] at this; cases this
    · rintro ⟨hns, hmatch, m, hm, hpl⟩
      refine ⟨m, ⟨hm, ?_⟩, hpl, ?_, hmatch⟩
      · -- a name with a proper ancestor contains the delimiter
        unfold leading at hpl
        simp only [List.mem_map, List.mem_range] at hpl
        obtain ⟨i, hi, _⟩ := hpl
        -- at least two components
        have h2 : 2 ≤ (splitOn slash m).length := by omega
        cases hc : m.contains slash with
        | true => rfl
        | false =>
          exfalso
          have hno : ∀ c ∈ m, c ≠ slash := by
            intro c hcm heq
            have : m.contains slash = true := List.contains_iff_mem.mpr (heq ▸ hcm)
            rw [hc] at this; cases this
          rw [splitOn_nosep slash m hno] at h2
          simp at h2
      · cases hcp : subs.contains p with
        | false => rfl
        | true => exact absurd (List.contains_iff_mem.mp hcp) hns
  · rename_i hp
    simp only [List.not_mem_nil, false_iff, not_and]
    intro hc
    exact absurd hc hp

end Raven.Lsub
