import RavenModel.Model.Mime
/-! The writer's choice of a boundary (`reconstructPartDFS` after the repair a04e0be): the children are rendered first and the
boundary `----=_Part_<Subtype>_<id>` is lengthened (`_0`, `_1`, …) until `boundaryOccursIn` finds no line in them that begins
with `--boundary` followed by the end of the line, white space or `--`.

Here that test is modelled (`flagged`) and proved to be at least as strict as what a reader takes for a delimiter
(`Mime.clean`): a boundary that passes the writer's test satisfies the side condition of `Mime.splitBody_joinBody` for every
part, whatever the parts contain. -/
namespace Raven.Mime
open Raven Raven.GoStr

/-- what may follow `--boundary` on a line for the writer's test to count it: the end of the text, a blank, a tab, a carriage
return, or `--` -/
def afterCounts : Bytes → Bool
  | [] => true
  | 32 :: _ => true
  | 9 :: _ => true
  | 13 :: _ => true
  | 45 :: 45 :: _ => true
  | _ => false

/-- `s` starts with `--boundary` (= `db`) in a way that counts -/
def delimHere (db s : Bytes) : Bool := hasPrefix s db && afterCounts (s.drop db.length)

/-- `boundaryOccursIn` for one rendered part: does a line of it start like a delimiter? (`atStart`: the position is the
beginning of the text or follows a line feed) -/
def flagged (db : Bytes) : Bool → Bytes → Bool
  | _, [] => false
  | atStart, c :: s => (atStart && delimHere db (c :: s)) || flagged db (c == 10) s

/-- a prefix match that begins in `x` and is free of carriage returns cannot run past the carriage return behind `x` -/
theorem prefix_within (db : Bytes) (hcr : 13 ∉ db) : ∀ (x y : Bytes), hasPrefix (x ++ 13 :: y) db = true →
    db.length ≤ x.length ∧ hasPrefix x db = true := by
  induction db with
  | nil => intro x y _; cases x <;> simp [hasPrefix]
  | cons a db ih =>
    intro x y h
    have ha : a ≠ 13 := fun e => hcr (by simp [e])
    have hdb : 13 ∉ db := fun e => hcr (by simp [e])
    cases x with
    | nil =>
      simp only [List.nil_append, hasPrefix, Bool.and_eq_true, decide_eq_true_eq] at h
      exact absurd h.1.symm ha
    | cons c x =>
      simp only [List.cons_append, hasPrefix, Bool.and_eq_true, decide_eq_true_eq] at h
      obtain ⟨h1, h2⟩ := ih hdb x y h.2
      refine ⟨by simp only [List.length_cons]; omega, ?_⟩
      simp [hasPrefix, h.1, h2]

theorem hasPrefix_append_right : ∀ (x p y : Bytes), hasPrefix x p = true → hasPrefix (x ++ y) p = true
  | _, [], _, _ => by cases ‹Bytes› <;> simp [hasPrefix] <;> (cases ‹Bytes› <;> simp [hasPrefix])
  | [], _ :: _, _, h => by simp [hasPrefix] at h
  | c :: x, a :: p, y, h => by
    simp only [hasPrefix, Bool.and_eq_true, decide_eq_true_eq] at h
    simp only [List.cons_append, hasPrefix, Bool.and_eq_true, decide_eq_true_eq]
    exact ⟨h.1, hasPrefix_append_right x p y h.2⟩

/-- the heart of it: where a reader sees a delimiter behind a line end inside the part, the writer's test sees a line that
starts like one — also when the reader's match ends right at the end of the part -/
theorem reader_hit_is_flagged_line (db : Bytes) (hcr : 13 ∉ db) (x t : Bytes)
    (hp : hasPrefix (x ++ (CRLF ++ (DD ++ db ++ t))) (DD ++ db) = true)
    (hc : (classify ((x ++ (CRLF ++ (DD ++ db ++ t))).drop (DD ++ db).length)).isSome = true) :
    delimHere (DD ++ db) (x ++ CRLF) = true := by
  have hcr' : 13 ∉ DD ++ db := by simp [DD, hcr]
  obtain ⟨hlen, hpx⟩ := prefix_within (DD ++ db) hcr' x (10 :: (DD ++ db ++ t)) (by simpa [CRLF] using hp)
  have hpre : hasPrefix (x ++ CRLF) (DD ++ db) = true := hasPrefix_append_right x _ CRLF hpx
  simp only [delimHere, hpre, Bool.true_and]
  rw [List.drop_append_of_le_length hlen] at hc ⊢
  -- what is left of x behind the match: nothing, one octet, or at least two
  rcases hx : x.drop (DD ++ db).length with _ | ⟨u, _ | ⟨v, r⟩⟩
  · simp [afterCounts, CRLF]
  · rw [hx] at hc
    -- one octet, then CR: neither `--` nor CR LF
    exfalso
    revert hc
    simp only [List.cons_append, List.nil_append, CRLF]
    unfold classify
    split <;> simp_all
  · rw [hx] at hc
    simp only [List.cons_append] at hc ⊢
    revert hc
    unfold classify afterCounts
    split <;> simp_all

theorem flagged_cons_false {db : Bytes} {at' : Bool} {c : UInt8} {s : Bytes} (h : flagged db at' (c :: s) = false) :
    (at' && delimHere db (c :: s)) = false ∧ flagged db (c == 10) s = false := by
  simpa [flagged, Bool.or_eq_false_iff] using h

theorem flagged_at_start {db : Bytes} {x : Bytes} (h : flagged db true (x ++ CRLF) = false) :
    delimHere db (x ++ CRLF) = false := by
  cases x with
  | nil => have := (flagged_cons_false (s := [10]) (by simpa [CRLF] using h)).1; simpa [CRLF] using this
  | cons c x => have := (flagged_cons_false (by simpa using h)).1; simpa using this

/-- **the writer's test is at least as strict as the reader**: a part none of whose lines is flagged for boundary `b` is clean
for the delimiter of `b`, whatever follows the delimiter behind it -/
theorem clean_of_not_flagged (b : Bytes) (hcr : 13 ∉ b) : ∀ (core t : Bytes) (at' : Bool),
    flagged (DD ++ b) at' (core ++ CRLF) = false → clean (delim b) core t = true
  | [], _, _, _ => by simp [clean, cleanGo]
  | c :: p, t, at', h => by
    obtain ⟨_, hrest⟩ := flagged_cons_false (by simpa using h)
    have ih := clean_of_not_flagged b hcr p t (c == 10) hrest
    simp only [clean, List.cons_append, List.length_cons, cleanGo, Bool.and_eq_true, Bool.not_eq_true'] at ih ⊢
    refine ⟨?_, by simpa [clean] using ih⟩
    -- no delimiter begins at this octet
    cases hh : hitHere (delim b) (c :: (p ++ delim b ++ t)) with
    | false => rfl
    | true =>
      exfalso
      simp only [hitHere, Bool.and_eq_true] at hh
      obtain ⟨hpre, hcl⟩ := hh
      -- the delimiter is CR LF -- b: so c = CR and p begins with LF
      have hd : delim b = 13 :: 10 :: (DD ++ b) := by simp [delim, CRLF]
      rw [hd] at hpre hcl
      simp only [hasPrefix, Bool.and_eq_true, decide_eq_true_eq] at hpre
      obtain ⟨hc13, hpre⟩ := hpre
      cases p with
      | nil =>
        simp only [List.nil_append, List.cons_append, hasPrefix, Bool.and_eq_true, decide_eq_true_eq] at hpre
        exact absurd hpre.1 (by decide)
      | cons c2 x =>
        simp only [List.cons_append, hasPrefix, Bool.and_eq_true, decide_eq_true_eq] at hpre
        obtain ⟨hc10, hpre⟩ := hpre
        subst hc13 hc10
        -- the line behind that line feed starts like a delimiter: the writer's test would have flagged it
        have hx : flagged (DD ++ b) true (x ++ CRLF) = false := by
          have h2 := (flagged_cons_false (by simpa using hrest)).2
          simpa using h2
        have hno := flagged_at_start hx
        have hyes := reader_hit_is_flagged_line b hcr x t
          (by simpa [List.append_assoc, CRLF, DD] using hpre)
          (by
            simp only [List.length_cons, List.cons_append, List.drop_succ_cons] at hcl
            simpa [List.append_assoc, CRLF, DD] using hcl)
        rw [hyes] at hno; cases hno

/-- every part passes the writer's test ⇒ the side condition of `splitBody_joinBody` holds: the reader finds the parts as
written, whatever octets they contain -/
theorem cleanAll_of_not_flagged (b : Bytes) (hcr : 13 ∉ b) : ∀ (ps : List Bytes) (e : Bytes),
    (∀ p ∈ ps, flagged (DD ++ b) true (p ++ CRLF) = false) → cleanAll (delim b) ps e = true
  | [], _, _ => rfl
  | [p], e, h => by simpa [cleanAll] using clean_of_not_flagged b hcr p (DD ++ e) true (h p (by simp))
  | p :: q :: ps, e, h => by
    simp only [cleanAll, Bool.and_eq_true]
    exact ⟨clean_of_not_flagged b hcr p _ true (h p (by simp)),
           cleanAll_of_not_flagged b hcr (q :: ps) e (fun x hx => h x (by simp [hx]))⟩

/-- the writer after the repair: parts that pass its test for the boundary it settled on are read back as written -/
theorem writer_parts_read_back (b : Bytes) (hcr : 13 ∉ b) (ps : List Bytes) (e : Bytes) (hne : ps ≠ [])
    (hok : ∀ p ∈ ps, flagged (DD ++ b) true (p ++ CRLF) = false) :
    splitBody b (joinBody b ps e) = some ps :=
  splitBody_joinBody b ps e hne (cleanAll_of_not_flagged b hcr ps e hok)

/-- the `n`-th boundary tried for a container: `base`, then `base_0`, `base_1`, … -/
def candidate (base : Bytes) (n : Nat) : Bytes := if n = 0 then base else base ++ [95] ++ Dec.print (n - 1)

def passes (b : Bytes) (ps : List Bytes) : Bool := ps.all (fun p => !flagged (DD ++ b) true (p ++ CRLF))

/-- the lengthening loop: the first candidate (`fuel` tries) that no part is flagged for -/
def chooseBoundary (base : Bytes) (ps : List Bytes) : Nat → Nat → Option Bytes
  | 0, _ => none
  | fuel + 1, n => if passes (candidate base n) ps then some (candidate base n) else chooseBoundary base ps fuel (n + 1)

theorem chooseBoundary_ok (base : Bytes) (ps : List Bytes) : ∀ (fuel n : Nat) (b : Bytes), chooseBoundary base ps fuel n = some b →
    ∀ p ∈ ps, flagged (DD ++ b) true (p ++ CRLF) = false
  | 0, _, _, h => by simp [chooseBoundary] at h
  | fuel + 1, n, b, h => by
    simp only [chooseBoundary] at h
    by_cases hall : passes (candidate base n) ps = true
    · simp only [hall, if_true, Option.some.injEq] at h
      subst h
      intro p hp
      have := List.all_eq_true.mp hall p hp
      simpa using this
    · simp only [hall, Bool.false_eq_true, if_false] at h
      exact chooseBoundary_ok base ps fuel (n + 1) b h

/-- **the repaired writer**: whatever octets the parts contain, the boundary the writer settles on makes the reader find the
parts exactly as written (the boundary itself contains no carriage return: it is `----=_Part_<Subtype>_<id>[_<n>]`) -/
theorem repaired_writer_parts_read_back (base : Bytes) (ps : List Bytes) (e : Bytes) (fuel : Nat) (b : Bytes) (hne : ps ≠ [])
    (hb : chooseBoundary base ps fuel 0 = some b) (hcr : 13 ∉ b) :
    splitBody b (joinBody b ps e) = some ps :=
  writer_parts_read_back b hcr ps e hne (chooseBoundary_ok base ps fuel 0 b hb)

/-! ### the whole tree -/

/-- what is stored: leaves with their text, containers with their media type and the base of their boundary
(`----=_Part_<Subtype>_<row id>`); the boundaries themselves are chosen when the message is written -/
inductive Src where
  | leaf (text : Bytes) : Src
  | multi (top : Bool) (ctype base : Bytes) (cs : List Src) : Src

mutual
/-- the repaired `reconstructPartDFS`: render the children, settle on a boundary they do not contain, write -/
def assign (fuel : Nat) : Src → Option Tree
  | .leaf t => some (.leaf t)
  | .multi top ctype base cs =>
    match assignList fuel cs with
    | none => none
    | some ts =>
      match chooseBoundary base (coreList ts) fuel 0 with
      | none => none
      | some b => some (.multi (containerHeader top ctype b) b ts)
def assignList (fuel : Nat) : List Src → Option (List Tree)
  | [] => some []
  | s :: ss =>
    match assign fuel s, assignList fuel ss with
    | some t, some ts => some (t :: ts)
    | _, _ => none
end

mutual
/-- no boundary base contains a carriage return (they are `----=_Part_<Subtype>_<id>`) -/
def basesOK : Src → Bool
  | .leaf _ => true
  | .multi _ _ base cs => !base.contains 13 && basesOKList cs
def basesOKList : List Src → Bool
  | [] => true
  | s :: ss => basesOK s && basesOKList ss
end

mutual
/-- the header reader (library code, a parameter) reads every container header as it was written and takes no leaf for a
container -/
def headersRead (K : HeaderReader) : Tree → Bool
  | .leaf t => (K t).isNone
  | .multi h b cs => (K (h ++ joinBody b (coreList cs) []) == some (h, b, joinBody b (coreList cs) [])) && headersReadList K cs
def headersReadList (K : HeaderReader) : List Tree → Bool
  | [] => true
  | t :: ts => headersRead K t && headersReadList K ts
end

theorem candidate_no_cr (base : Bytes) (h : 13 ∉ base) (n : Nat) : 13 ∉ candidate base n := by
  unfold candidate
  split
  · exact h
  · intro hm
    simp only [List.mem_append, List.mem_singleton] at hm
    rcases hm with (hm | hm) | hm
    · exact h hm
    · exact absurd hm (by decide)
    · have := Dec.print_digits (n - 1) 13 hm
      revert this; decide

theorem chooseBoundary_no_cr (base : Bytes) (h : 13 ∉ base) (ps : List Bytes) : ∀ (fuel n : Nat) (b : Bytes),
    chooseBoundary base ps fuel n = some b → 13 ∉ b
  | 0, _, _, hb => by simp [chooseBoundary] at hb
  | fuel + 1, n, b, hb => by
    simp only [chooseBoundary] at hb
    by_cases hall : passes (candidate base n) ps = true
    · simp only [hall, if_true, Option.some.injEq] at hb
      subst hb; exact candidate_no_cr base h n
    · simp only [hall, Bool.false_eq_true, if_false] at hb
      exact chooseBoundary_no_cr base h ps fuel (n + 1) b hb

mutual
/-- what the repaired writer produces satisfies the side condition of the read-back theorem — by construction, whatever the
leaves contain -/
theorem assign_fresh (K : HeaderReader) (fuel : Nat) : ∀ (s : Src) (t : Tree), assign fuel s = some t → basesOK s = true →
    headersRead K t = true → fresh K t = true
  | .leaf x, t, ha, _, hr => by
    simp only [assign, Option.some.injEq] at ha
    subst ha
    simpa [fresh, headersRead] using hr
  | .multi top ctype base cs, t, ha, hb, hr => by
    simp only [assign] at ha
    cases hts : assignList fuel cs with
    | none => simp [hts] at ha
    | some ts =>
      simp only [hts] at ha
      cases hcb : chooseBoundary base (coreList ts) fuel 0 with
      | none => simp [hcb] at ha
      | some b =>
        simp only [hcb, Option.some.injEq] at ha
        subst ha
        simp only [basesOK, Bool.and_eq_true, Bool.not_eq_true'] at hb
        have hbase : 13 ∉ base := by
          intro hm
          have : base.contains 13 = true := List.contains_iff_mem.mpr hm
          rw [hb.1] at this; cases this
        simp only [headersRead, Bool.and_eq_true] at hr
        have hcr := chooseBoundary_no_cr base hbase (coreList ts) fuel 0 b hcb
        have hok := chooseBoundary_ok base (coreList ts) fuel 0 b hcb
        have hclean := cleanAll_of_not_flagged b hcr (coreList ts) [] hok
        have hkids := assignList_fresh K fuel cs ts hts hb.2 hr.2
        simp only [fresh, Bool.and_eq_true]
        exact ⟨⟨hr.1, hclean⟩, hkids⟩
theorem assignList_fresh (K : HeaderReader) (fuel : Nat) : ∀ (ss : List Src) (ts : List Tree), assignList fuel ss = some ts →
    basesOKList ss = true → headersReadList K ts = true → freshList K ts = true
  | [], ts, ha, _, _ => by
    simp only [assignList, Option.some.injEq] at ha
    subst ha; rfl
  | s :: ss, ts, ha, hb, hr => by
    simp only [assignList] at ha
    cases h1 : assign fuel s with
    | none => simp [h1] at ha
    | some t =>
      cases h2 : assignList fuel ss with
      | none => simp [h1, h2] at ha
      | some ts' =>
        simp only [h1, h2, Option.some.injEq] at ha
        subst ha
        simp only [basesOKList, Bool.and_eq_true] at hb
        simp only [headersReadList, Bool.and_eq_true] at hr
        simp only [freshList, Bool.and_eq_true]
        exact ⟨assign_fresh K fuel s t h1 hb.1 hr.1, assignList_fresh K fuel ss ts' h2 hb.2 hr.2⟩
end

/-- **the repaired writer, end to end**: for every stored tree — any depth, any number of parts, any octets in the leaves —
the text it writes is taken apart by a reader into exactly the tree it was written from. (The header reader is library
code: it is assumed to read the container headers the writer produces and to take no leaf for a container.) -/
theorem repaired_tree_reads_back (K : HeaderReader) (fuel : Nat) (s : Src) (t : Tree) (f : Nat) (ha : assign fuel s = some t)
    (hb : basesOK s = true) (hr : headersRead K t = true) (hf : depth t ≤ f) : parse K f (core t) = some t :=
  parse_core K t f hf (assign_fresh K fuel s t ha hb hr)

end Raven.Mime
