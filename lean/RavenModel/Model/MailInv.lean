import RavenModel.Model.Mail
/-! Invariant of the mailbox machine (C03): UIDs ascending and below UIDNEXT in every mailbox, incarnations
distinct, every UID assignment logged, the log strictly increasing per incarnation. Proved for the machine's
kernel mutations and lifted to every operation. -/
namespace Raven.Mail
open Raven

structure BoxOK (b : Mbox) : Prop where
  asc : (b.links.map (·.uid)).Pairwise (· < ·)
  bound : ∀ l ∈ b.links, l.uid < b.uidNext

structure Inv (s : Store) : Prop where
  names : (s.boxes.map (·.name)).Nodup
  incs : (s.boxes.map (·.inc)).Nodup
  incLt : ∀ b ∈ s.boxes, b.inc < s.nextInc
  box : ∀ b ∈ s.boxes, BoxOK b
  logInc : ∀ e ∈ s.log, e.inc < s.nextInc
  logBound : ∀ e ∈ s.log, ∀ b ∈ s.boxes, b.inc = e.inc → e.uid < b.uidNext
  logMono : s.log.Pairwise (fun newer older => newer.inc = older.inc → older.uid < newer.uid)
  linkLogged : ∀ b ∈ s.boxes, ∀ l ∈ b.links, ∃ e ∈ s.log, e.inc = b.inc ∧ e.uid = l.uid ∧ e.msg = l.msg

theorem find_mem {s : Store} {n : Bytes} {b : Mbox} (h : s.find n = some b) : b ∈ s.boxes :=
  List.mem_of_find?_eq_some h

theorem find_name {s : Store} {n : Bytes} {b : Mbox} (h : s.find n = some b) : b.name = n := by
  have := List.find?_some h
  simpa using this

theorem eq_of_key {α β} (f : α → β) : ∀ {l : List α}, (l.map f).Nodup → ∀ {a b : α}, a ∈ l → b ∈ l → f a = f b → a = b
  | [], _, _, _, ha, _, _ => by cases ha
  | x :: xs, hnd, a, b, ha, hb, h => by
    simp only [List.map_cons, List.nodup_cons] at hnd
    simp only [List.mem_cons] at ha hb
    rcases ha with rfl | ha <;> rcases hb with rfl | hb
    · rfl
    · exact absurd (List.mem_map.mpr ⟨_, hb, h.symm⟩) hnd.1
    · exact absurd (List.mem_map.mpr ⟨_, ha, h⟩) hnd.1
    · exact eq_of_key f hnd.2 ha hb h

/-! ### kernel 1: a mutation of one mailbox's links that only removes links or rewrites flags -/
/-- `g` keeps a sub-list of the UIDs (in order) and never changes which message a UID carries -/
structure Shrinks (g : List Link → List Link) : Prop where
  sub : ∀ ls, ((g ls).map (·.uid)).Sublist (ls.map (·.uid))
  same : ∀ ls, ∀ l' ∈ g ls, ∃ l ∈ ls, l.uid = l'.uid ∧ l.msg = l'.msg

def Store.mapLinks (s : Store) (n : Bytes) (g : List Link → List Link) : Store :=
  s.modify n (fun b => { b with links := g b.links })

theorem inv_mapLinks (s : Store) (n : Bytes) (g : List Link → List Link) (hg : Shrinks g) (hi : Inv s) :
    Inv (s.mapLinks n g) := by
  unfold Store.mapLinks Store.modify
  have hname : (s.boxes.map (fun b => if b.name = n then { b with links := g b.links } else b)).map (·.name) = s.boxes.map (·.name) := by
    rw [List.map_map]; apply List.map_congr_left; intro b _; simp only [Function.comp]; split <;> rfl
  have hinc : (s.boxes.map (fun b => if b.name = n then { b with links := g b.links } else b)).map (·.inc) = s.boxes.map (·.inc) := by
    rw [List.map_map]; apply List.map_congr_left; intro b _; simp only [Function.comp]; split <;> rfl
  refine { names := by simpa [hname] using hi.names, incs := by simpa [hinc] using hi.incs,
           incLt := ?_, box := ?_, logInc := hi.logInc, logBound := ?_, logMono := hi.logMono, linkLogged := ?_ }
  · intro b' hb'
    obtain ⟨b, hb, rfl⟩ := List.mem_map.mp hb'
    split <;> exact hi.incLt b hb
  · intro b' hb'
    obtain ⟨b, hb, rfl⟩ := List.mem_map.mp hb'
    split
    · have ok := hi.box b hb
      refine ⟨List.Pairwise.sublist (hg.sub b.links) ok.asc, ?_⟩
      intro l' hl'
      obtain ⟨l, hl, hu, _⟩ := hg.same b.links l' hl'
      have := ok.bound l hl
      simp only at *; omega
    · exact hi.box b hb
  · intro e he b' hb' hinc'
    obtain ⟨b, hb, rfl⟩ := List.mem_map.mp hb'
    by_cases hbn : b.name = n
    · simp only [hbn, if_true] at hinc' ⊢; exact hi.logBound e he b hb hinc'
    · simp only [hbn, if_false] at hinc' ⊢; exact hi.logBound e he b hb hinc'
  · intro b' hb' l' hl'
    obtain ⟨b, hb, rfl⟩ := List.mem_map.mp hb'
    by_cases hbn : b.name = n
    · simp only [hbn, if_true] at hl' ⊢
      obtain ⟨l, hl, hu, hm⟩ := hg.same b.links l' hl'
      obtain ⟨e, he, h1, h2, h3⟩ := hi.linkLogged b hb l hl
      exact ⟨e, he, h1, by omega, by omega⟩
    · simp only [hbn, if_false] at hl' ⊢; exact hi.linkLogged b hb l' hl'

theorem shrinks_filter (p : Link → Bool) : Shrinks (fun ls => ls.filter p) :=
  ⟨fun ls => List.Sublist.map _ List.filter_sublist, fun ls l' hl' => ⟨l', (List.mem_filter.mp hl').1, rfl, rfl⟩⟩

theorem shrinks_mapFlags (f : Link → List Bytes) : Shrinks (fun ls => ls.map (fun l => { l with flags := f l })) :=
  ⟨fun ls => by rw [List.map_map]; exact List.Sublist.refl _,
   fun ls l' hl' => by obtain ⟨l, hl, rfl⟩ := List.mem_map.mp hl'; exact ⟨l, hl, rfl, rfl⟩⟩

theorem shrinks_mapIf (c : Link → Prop) [DecidablePred c] (fl : List Bytes) :
    Shrinks (fun ls => ls.map (fun x => if c x then { x with flags := fl } else x)) :=
  ⟨fun ls => by
      have : (ls.map (fun x => if c x then { x with flags := fl } else x)).map (·.uid) = ls.map (·.uid) := by
        rw [List.map_map]; apply List.map_congr_left; intro x _; simp only [Function.comp]; split <;> rfl
      rw [this]; exact List.Sublist.refl _,
   fun ls l' hl' => by
      obtain ⟨l, hl, rfl⟩ := List.mem_map.mp hl'
      refine ⟨l, hl, ?_, ?_⟩ <;> split <;> rfl⟩

/-! ### kernel 2: allocate the next UID of mailbox `n` -/
theorem inv_add (s : Store) (n : Bytes) (msg : Nat) (fl : List Bytes) (hi : Inv s) : Inv (s.add n msg fl).1 := by
  unfold Store.add
  cases hf : s.find n with
  | none => exact hi
  | some b0 =>
    have hb0 := find_mem hf
    have hn0 := find_name hf
    simp only [Store.modify]
    -- the one box with name n is b0
    have only : ∀ b ∈ s.boxes, b.name = n → b = b0 := fun b hb hbn =>
      eq_of_key (·.name) hi.names hb hb0 (by rw [hbn, hn0])
    have hname : (s.boxes.map (fun b => if b.name = n then b.push msg fl else b)).map (·.name) = s.boxes.map (·.name) := by
      rw [List.map_map]; apply List.map_congr_left; intro b _; simp only [Function.comp, Mbox.push]; split <;> rfl
    have hinc : (s.boxes.map (fun b => if b.name = n then b.push msg fl else b)).map (·.inc) = s.boxes.map (·.inc) := by
      rw [List.map_map]; apply List.map_congr_left; intro b _; simp only [Function.comp, Mbox.push]; split <;> rfl
    refine { names := by simpa [hname] using hi.names, incs := by simpa [hinc] using hi.incs,
             incLt := ?_, box := ?_, logInc := ?_, logBound := ?_, logMono := ?_, linkLogged := ?_ }
    · intro b' hb'
      obtain ⟨b, hb, rfl⟩ := List.mem_map.mp hb'
      split
      · exact hi.incLt b hb
      · exact hi.incLt b hb
    · intro b' hb'
      obtain ⟨b, hb, rfl⟩ := List.mem_map.mp hb'
      split
      · have ok := hi.box b hb
        constructor
        · simp only [Mbox.push, List.map_append, List.map_cons, List.map_nil]
          rw [List.pairwise_append]
          refine ⟨ok.asc, by simp, ?_⟩
          intro u hu v hv
          simp only [List.mem_singleton] at hv; subst hv
          obtain ⟨l, hl, rfl⟩ := List.mem_map.mp hu
          exact ok.bound l hl
        · intro l hl
          simp only [Mbox.push, List.mem_append, List.mem_singleton] at hl ⊢
          rcases hl with hl | rfl
          · have := ok.bound l hl; omega
          · simp
      · exact hi.box b hb
    · intro e he
      simp only [List.mem_cons] at he
      rcases he with rfl | he
      · exact hi.incLt b0 hb0
      · exact hi.logInc e he
    · intro e he b' hb' hinc'
      obtain ⟨b, hb, rfl⟩ := List.mem_map.mp hb'
      simp only [List.mem_cons] at he
      rcases he with rfl | he
      · -- the new entry: only b0 has its incarnation
        have hbinc : b.inc = b0.inc := by
          split at hinc' <;> simpa [Mbox.push, Mbox.entry] using hinc'
        have : b = b0 := eq_of_key (·.inc) hi.incs hb hb0 hbinc
        subst this
        simp [hn0, Mbox.push, Mbox.entry]
      · by_cases hbn : b.name = n
        · simp only [hbn, if_true] at hinc' ⊢
          have := hi.logBound e he b hb (by simpa [Mbox.push] using hinc')
          simp only [Mbox.push]; omega
        · simp only [hbn, if_false] at hinc' ⊢; exact hi.logBound e he b hb hinc'
    · simp only [List.pairwise_cons]
      refine ⟨?_, hi.logMono⟩
      intro e he hie
      exact hi.logBound e he b0 hb0 (by simpa [Mbox.entry] using hie)
    · intro b' hb' l hl
      obtain ⟨b, hb, rfl⟩ := List.mem_map.mp hb'
      by_cases hbn : b.name = n
      · simp only [hbn, if_true] at hl ⊢
        have : b = b0 := only b hb hbn
        subst this
        simp only [Mbox.push, List.mem_append, List.mem_singleton] at hl
        rcases hl with hl | rfl
        · obtain ⟨e, he, h⟩ := hi.linkLogged b hb l hl
          exact ⟨e, List.mem_cons_of_mem _ he, by simpa [Mbox.push] using h⟩
        · exact ⟨b.entry msg, List.mem_cons_self .., by simp [Mbox.entry, Mbox.push]⟩
      · simp only [hbn, if_false] at hl ⊢
        obtain ⟨e, he, h⟩ := hi.linkLogged b hb l hl
        exact ⟨e, List.mem_cons_of_mem _ he, h⟩

theorem inv_addMany (s : Store) (n : Bytes) (items : List (Nat × List Bytes)) (hi : Inv s) : Inv (s.addMany n items) := by
  induction items generalizing s with
  | nil => exact hi
  | cons it rest ih =>
    obtain ⟨m, fl⟩ := it
    exact ih _ (inv_add s n m fl hi)


/-! ### kernel 3: a new, empty mailbox with a fresh incarnation -/
theorem has_iff (s : Store) (n : Bytes) : s.has n = true ↔ n ∈ s.boxes.map (·.name) := by
  simp only [Store.has, List.any_eq_true, decide_eq_true_eq, List.mem_map]

theorem inv_newBox (s : Store) (n : Bytes) (now : Nat) (hi : Inv s) : Inv (s.newBox n now) := by
  unfold Store.newBox
  split
  · exact hi
  · rename_i hc
    have hnot : ¬ (n ∈ s.boxes.map (·.name)) := by
      intro h; exact hc (Or.inr ((has_iff s n).mpr h))
    refine { names := ?_, incs := ?_, incLt := ?_, box := ?_, logInc := ?_, logBound := ?_, logMono := hi.logMono, linkLogged := ?_ }
    · simp only [List.map_append, List.map_cons, List.map_nil]
      rw [List.nodup_append]
      refine ⟨hi.names, by simp, ?_⟩
      intro a ha b hb
      simp only [List.mem_singleton] at hb; subst hb
      intro e; subst e; exact hnot ha
    · simp only [List.map_append, List.map_cons, List.map_nil]
      rw [List.nodup_append]
      refine ⟨hi.incs, by simp, ?_⟩
      intro a ha b hb
      simp only [List.mem_singleton] at hb; subst hb
      obtain ⟨bx, hbx, rfl⟩ := List.mem_map.mp ha
      have := hi.incLt bx hbx
      omega
    · intro b hb
      simp only [List.mem_append, List.mem_singleton] at hb
      rcases hb with hb | rfl
      · have := hi.incLt b hb; simp only; omega
      · simp
    · intro b hb
      simp only [List.mem_append, List.mem_singleton] at hb
      rcases hb with hb | rfl
      · exact hi.box b hb
      · exact ⟨by simp, by simp⟩
    · intro e he; have := hi.logInc e he; simp only; omega
    · intro e he b hb hinc
      simp only [List.mem_append, List.mem_singleton] at hb
      rcases hb with hb | rfl
      · exact hi.logBound e he b hb hinc
      · have := hi.logInc e he; simp only at hinc; omega
    · intro b hb l hl
      simp only [List.mem_append, List.mem_singleton] at hb
      rcases hb with hb | rfl
      · exact hi.linkLogged b hb l hl
      · simp at hl

theorem inv_newBoxes (s : Store) (ns : List Bytes) (now : Nat) (hi : Inv s) : Inv (s.newBoxes ns now) := by
  unfold Store.newBoxes
  induction ns generalizing s with
  | nil => exact hi
  | cons n rest ih => simp only [List.foldl_cons]; exact ih _ (inv_newBox s n now hi)

/-! ### kernel 4: mailboxes removed -/
theorem inv_filterBoxes (s : Store) (p : Mbox → Bool) (hi : Inv s) : Inv { s with boxes := s.boxes.filter p } := by
  refine { names := List.Nodup.sublist (List.Sublist.map _ List.filter_sublist) hi.names,
           incs := List.Nodup.sublist (List.Sublist.map _ List.filter_sublist) hi.incs,
           incLt := fun b hb => hi.incLt b (List.mem_filter.mp hb).1,
           box := fun b hb => hi.box b (List.mem_filter.mp hb).1,
           logInc := hi.logInc,
           logBound := fun e he b hb => hi.logBound e he b (List.mem_filter.mp hb).1,
           logMono := hi.logMono,
           linkLogged := fun b hb => hi.linkLogged b (List.mem_filter.mp hb).1 }

/-! ### kernel 5: mailboxes renamed (everything but the names unchanged), guarded by name uniqueness -/
theorem inv_renameBoxes (s : Store) (f : Mbox → Bytes) (hi : Inv s)
    (hn : ((s.boxes.map (fun b => { b with name := f b })).map (·.name)).Nodup) :
    Inv { s with boxes := s.boxes.map (fun b => { b with name := f b }) } := by
  have hinc : (s.boxes.map (fun b => { b with name := f b })).map (·.inc) = s.boxes.map (·.inc) := by
    rw [List.map_map]; rfl
  refine { names := hn, incs := by simpa [hinc] using hi.incs, incLt := ?_, box := ?_, logInc := hi.logInc,
           logBound := ?_, logMono := hi.logMono, linkLogged := ?_ }
  · intro b' hb'; obtain ⟨b, hb, rfl⟩ := List.mem_map.mp hb'; exact hi.incLt b hb
  · intro b' hb'; obtain ⟨b, hb, rfl⟩ := List.mem_map.mp hb'
    exact ⟨(hi.box b hb).asc, (hi.box b hb).bound⟩
  · intro e he b' hb' h; obtain ⟨b, hb, rfl⟩ := List.mem_map.mp hb'; exact hi.logBound e he b hb h
  · intro b' hb' l hl; obtain ⟨b, hb, rfl⟩ := List.mem_map.mp hb'; exact hi.linkLogged b hb l hl


/-! ### kernel 6: RENAME INBOX — a new incarnation takes over INBOX's links and continues its UID sequence -/
theorem relog_inc (b : Mbox) : ∀ e ∈ relog b, e.inc = b.inc := by
  intro e he
  simp only [relog, List.mem_reverse, List.mem_map] at he
  obtain ⟨l, _, rfl⟩ := he; rfl

theorem relog_mem (b : Mbox) (e : Entry) (he : e ∈ relog b) : ∃ l ∈ b.links, e.uid = l.uid ∧ e.msg = l.msg := by
  simp only [relog, List.mem_reverse, List.mem_map] at he
  obtain ⟨l, hl, rfl⟩ := he; exact ⟨l, hl, rfl, rfl⟩

theorem relog_mono (b : Mbox) (h : (b.links.map (·.uid)).Pairwise (· < ·)) :
    (relog b).Pairwise (fun newer older => newer.inc = older.inc → older.uid < newer.uid) := by
  unfold relog
  rw [List.pairwise_reverse]
  rw [List.pairwise_map] at h ⊢
  exact List.Pairwise.imp (fun {x y} (hlt : x.uid < y.uid) _ => hlt) h

theorem inv_renameInbox (s : Store) (n : Bytes) (now : Nat) (ib : Mbox) (hi : Inv s)
    (hf : s.find inboxName = some ib) (hn : s.has n = false) :
    let nb : Mbox := { name := n, validity := s.freshValidity now, uidNext := ib.uidNext, links := ib.links, inc := s.nextInc }
    Inv { s with boxes := (s.boxes.map (fun b => if b.name = inboxName then { b with links := [] } else b)) ++ [nb]
                 nextInc := s.nextInc + 1
                 log := relog nb ++ s.log
                 vseq := s.freshValidity now } := by
  intro nb
  have hib := find_mem hf
  have okib := hi.box ib hib
  have hnot : ¬ (n ∈ s.boxes.map (·.name)) := by
    intro h; have := (has_iff s n).mpr h; rw [hn] at this; exact absurd this (by simp)
  have hname : (s.boxes.map (fun b => if b.name = inboxName then { b with links := [] } else b)).map (·.name) = s.boxes.map (·.name) := by
    rw [List.map_map]; apply List.map_congr_left; intro b _; simp only [Function.comp]; split <;> rfl
  have hinc : (s.boxes.map (fun b => if b.name = inboxName then { b with links := [] } else b)).map (·.inc) = s.boxes.map (·.inc) := by
    rw [List.map_map]; apply List.map_congr_left; intro b _; simp only [Function.comp]; split <;> rfl
  refine { names := ?_, incs := ?_, incLt := ?_, box := ?_, logInc := ?_, logBound := ?_, logMono := ?_, linkLogged := ?_ }
  · simp only [List.map_append, List.map_cons, List.map_nil, hname]
    rw [List.nodup_append]
    refine ⟨hi.names, by simp, ?_⟩
    intro a ha b hb
    simp only [List.mem_singleton] at hb; subst hb
    intro e; subst e; exact hnot ha
  · simp only [List.map_append, List.map_cons, List.map_nil, hinc]
    rw [List.nodup_append]
    refine ⟨hi.incs, by simp, ?_⟩
    intro a ha b hb
    simp only [List.mem_singleton] at hb; subst hb
    obtain ⟨bx, hbx, rfl⟩ := List.mem_map.mp ha
    have := hi.incLt bx hbx
    show bx.inc ≠ s.nextInc
    omega
  · intro b hb
    simp only [List.mem_append, List.mem_singleton, List.mem_map] at hb
    rcases hb with ⟨b0, hb0, rfl⟩ | rfl
    · have := hi.incLt b0 hb0
      by_cases hc : b0.name = inboxName <;> simp only [hc, if_true, if_false] <;> omega
    · show s.nextInc < s.nextInc + 1; omega
  · intro b hb
    simp only [List.mem_append, List.mem_singleton, List.mem_map] at hb
    rcases hb with ⟨b0, hb0, rfl⟩ | rfl
    · by_cases hc : b0.name = inboxName
      · simp only [hc, if_true]; exact ⟨by simp, by simp⟩
      · simp only [hc, if_false]; exact hi.box b0 hb0
    · exact ⟨okib.asc, okib.bound⟩
  · intro e he
    simp only [List.mem_append] at he
    rcases he with he | he
    · have := relog_inc nb e he; show e.inc < s.nextInc + 1; rw [this]; show s.nextInc < _; omega
    · have := hi.logInc e he; show e.inc < s.nextInc + 1; omega
  · intro e he b hb hbe
    simp only [List.mem_append, List.mem_singleton, List.mem_map] at hb
    simp only [List.mem_append] at he
    rcases he with he | he
    · have hei := relog_inc nb e he
      rcases hb with ⟨b0, hb0, rfl⟩ | rfl
      · exfalso
        have h1 := hi.incLt b0 hb0
        have : b0.inc = s.nextInc := by
          by_cases hc : b0.name = inboxName <;> simp only [hc, if_true, if_false] at hbe <;> rw [hbe, hei]
        omega
      · obtain ⟨l, hl, hu, _⟩ := relog_mem nb e he
        have := okib.bound l hl
        show e.uid < ib.uidNext; omega
    · have h1 := hi.logInc e he
      rcases hb with ⟨b0, hb0, rfl⟩ | rfl
      · by_cases hc : b0.name = inboxName
        · simp only [hc, if_true] at hbe ⊢; exact hi.logBound e he b0 hb0 hbe
        · simp only [hc, if_false] at hbe ⊢; exact hi.logBound e he b0 hb0 hbe
      · exfalso; have : s.nextInc = e.inc := hbe; omega
  · rw [List.pairwise_append]
    refine ⟨relog_mono nb okib.asc, hi.logMono, ?_⟩
    intro e1 h1 e2 h2 heq
    have a := relog_inc nb e1 h1
    have b := hi.logInc e2 h2
    exfalso
    have : e1.inc = s.nextInc := a
    omega
  · intro b hb l hl
    simp only [List.mem_append, List.mem_singleton, List.mem_map] at hb
    rcases hb with ⟨b0, hb0, rfl⟩ | rfl
    · by_cases hc : b0.name = inboxName
      · simp only [hc, if_true] at hl; simp at hl
      · simp only [hc, if_false] at hl ⊢
        obtain ⟨e, he, h⟩ := hi.linkLogged b0 hb0 l hl
        exact ⟨e, List.mem_append_right _ he, h⟩
    · refine ⟨{ inc := nb.inc, name := nb.name, validity := nb.validity, uid := l.uid, msg := l.msg }, ?_, rfl, rfl, rfl⟩
      apply List.mem_append_left
      simp only [relog, List.mem_reverse, List.mem_map]
      exact ⟨l, hl, rfl⟩


/-! ### every operation of the machine preserves the invariant -/
theorem inv_subs (s : Store) (x : List Bytes) (hi : Inv s) : Inv { s with subs := x } :=
  ⟨hi.names, hi.incs, hi.incLt, hi.box, hi.logInc, hi.logBound, hi.logMono, hi.linkLogged⟩

theorem inv_copy (s : Store) (src : Bytes) (ranks : List Nat) (dst : Bytes) (hi : Inv s) : Inv (s.copy src ranks dst).1 := by
  unfold Store.copy
  split
  · exact hi
  · split
    · exact hi
    · split
      · exact hi
      · simp only []
        split
        · exact hi
        · exact inv_addMany _ _ _ hi

theorem inv_uidCopy (s : Store) (src : Bytes) (uids : List Nat) (dst : Bytes) (hi : Inv s) : Inv (s.uidCopy src uids dst).1 := by
  unfold Store.uidCopy
  split
  · exact hi
  · split
    · exact hi
    · split
      · exact hi
      · exact inv_addMany _ _ _ hi

theorem inv_move (s s' : Store) (src : Bytes) (l : Link) (dst : Bytes) (fl : List Bytes) (hi : Inv s)
    (h : s.move src l dst fl = some s') : Inv s' := by
  unfold Store.move at h
  split at h
  · cases h
  · split at h
    · cases h
    · cases h
      exact inv_mapLinks _ src (fun ls => ls.filter (fun x => x.uid ≠ l.uid)) (shrinks_filter _) (inv_add s dst l.msg fl hi)

theorem inv_storeOne (s : Store) (box : Bytes) (l : Link) (rank : Nat) (new : List Bytes) (mode : Flags.Mode)
    (hi : Inv s) : Inv (s.storeOne box l rank new mode).1 := by
  have hset : ∀ s0 : Store, Inv s0 → Inv (s0.modify box (fun b => { b with links := b.links.map (fun x =>
        if x.uid = l.uid then { x with flags := Flags.newFlags l.flags new mode } else x) })) :=
    fun s0 h0 => inv_mapLinks s0 box _ (shrinks_mapIf _ _) h0
  unfold Store.storeOne
  simp only []
  split
  · split
    · rename_i s' hm; exact inv_move _ _ _ _ _ _ hi hm
    · exact hset s hi
  · split
    · split
      · rename_i s' hm; exact inv_move _ _ _ _ _ _ hi hm
      · exact hset s hi
    · exact hset s hi

theorem inv_storeUid (s : Store) (box : Bytes) (new : List Bytes) (mode : Flags.Mode) (uids : List Nat) (hi : Inv s) :
    Inv (s.storeUid box new mode uids).1 := by
  induction uids generalizing s with
  | nil => exact hi
  | cons u us ih =>
    unfold Store.storeUid
    split
    · exact ih s hi
    · exact ih _ (inv_storeOne s box _ _ new mode hi)

theorem inv_storeSeq (s : Store) (box : Bytes) (new : List Bytes) (mode : Flags.Mode) (ranks : List Nat) (hi : Inv s) :
    Inv (s.storeSeq box new mode ranks).1 := by
  unfold Store.storeSeq
  split
  · exact hi
  · exact inv_storeUid s box new mode _ hi

theorem inv_expungeBy (s : Store) (box : Bytes) (doomed : Link → Bool) (hi : Inv s) : Inv (s.expungeBy box doomed).1 := by
  unfold Store.expungeBy
  split
  · exact hi
  · exact inv_mapLinks s box (fun ls => ls.filter (fun l => !doomed l)) (shrinks_filter _) hi

theorem inv_create (s : Store) (arg : Bytes) (now : Nat) (hi : Inv s) : Inv (s.create arg now).1 := by
  unfold Store.create
  simp only []
  split
  · exact hi
  · split
    · exact hi
    · split
      · exact hi
      · split
        · exact hi
        · exact inv_newBox _ _ _ (inv_newBoxes _ _ _ hi)

theorem inv_delete (s : Store) (arg : Bytes) (hi : Inv s) : Inv (s.delete arg).1 := by
  unfold Store.delete
  simp only []
  split
  · exact hi
  · split
    · exact hi
    · split
      · exact hi
      · split
        · exact hi
        · split
          · exact hi
          · exact inv_filterBoxes s _ hi

theorem inv_rename (s : Store) (o n : Bytes) (now : Nat) (hi : Inv s) : Inv (s.rename o n now).1 := by
  unfold Store.rename
  simp only []
  split
  · exact hi
  · split
    · exact hi
    · split
      · exact hi
      · split
        · split
          · exact hi
          · split
            · exact hi
            · rename_i hn _ ib hf
              exact inv_renameInbox s _ now ib hi hf (by simpa using hn)
        · split
          · exact hi
          · split
            · exact hi
            · have h1 := inv_newBoxes s (ancestors (GoStr.trimQuotes n)) now hi
              split
              · rename_i hnd
                exact inv_renameBoxes _ _ h1 (by simpa [namesNodup] using hnd)
              · exact h1

theorem inv_subscribe (s : Store) (a : Bytes) (hi : Inv s) : Inv (s.subscribe a).1 := by
  unfold Store.subscribe; simp only []
  split
  · exact hi
  · split
    · exact hi
    · exact inv_subs s _ hi

theorem inv_unsubscribe (s : Store) (a : Bytes) (hi : Inv s) : Inv (s.unsubscribe a).1 := by
  unfold Store.unsubscribe; simp only []
  split
  · exact hi
  · split
    · exact inv_subs s _ hi
    · exact hi

/-! ### operations and histories -/
inductive Op where
  | add (box : Bytes) (msg : Nat) (flags : List Bytes)            -- LMTP delivery / APPEND
  | copy (src : Bytes) (ranks : List Nat) (dst : Bytes)
  | uidCopy (src : Bytes) (uids : List Nat) (dst : Bytes)
  | store (box : Bytes) (new : List Bytes) (mode : Flags.Mode) (ranks : List Nat)
  | uidStore (box : Bytes) (new : List Bytes) (mode : Flags.Mode) (uids : List Nat)
  | expunge (box : Bytes)                                          -- also CLOSE
  | uidExpunge (box : Bytes) (uids : List Nat)
  | create (arg : Bytes) (now : Nat)
  | delete (arg : Bytes)
  | rename (o n : Bytes) (now : Nat)
  | subscribe (arg : Bytes)
  | unsubscribe (arg : Bytes)

def step (s : Store) : Op → Store
  | .add b m f => (s.add b m f).1
  | .copy a r d => (s.copy a r d).1
  | .uidCopy a u d => (s.uidCopy a u d).1
  | .store b n m r => (s.storeSeq b n m r).1
  | .uidStore b n m u => (s.storeUid b n m u).1
  | .expunge b => (s.expunge b).1
  | .uidExpunge b u => (s.uidExpunge b u).1
  | .create a now => (s.create a now).1
  | .delete a => (s.delete a).1
  | .rename o n now => (s.rename o n now).1
  | .subscribe a => (s.subscribe a).1
  | .unsubscribe a => (s.unsubscribe a).1

def run (s : Store) (ops : List Op) : Store := ops.foldl step s

theorem inv_step (s : Store) (op : Op) (hi : Inv s) : Inv (step s op) := by
  cases op with
  | add b m f => exact inv_add s b m f hi
  | copy a r d => exact inv_copy s a r d hi
  | uidCopy a u d => exact inv_uidCopy s a u d hi
  | store b n m r => exact inv_storeSeq s b n m r hi
  | uidStore b n m u => exact inv_storeUid s b n m u hi
  | expunge b => exact inv_expungeBy s b _ hi
  | uidExpunge b u => exact inv_expungeBy s b _ hi
  | create a now => exact inv_create s a now hi
  | delete a => exact inv_delete s a hi
  | rename o n now => exact inv_rename s o n now hi
  | subscribe a => exact inv_subscribe s a hi
  | unsubscribe a => exact inv_unsubscribe s a hi

theorem inv_init (now : Nat) : Inv (Store.init now) := by
  refine { names := by simp [Store.init, defaultNames, List.zipIdx], incs := by simp [Store.init, defaultNames, List.zipIdx], incLt := ?_, box := ?_, logInc := ?_, logBound := ?_, logMono := ?_, linkLogged := ?_ }
  · intro b hb
    simp only [Store.init, defaultNames, List.zipIdx, List.map, List.mem_cons, List.not_mem_nil, or_false] at hb
    rcases hb with rfl | rfl | rfl | rfl | rfl <;> simp [Store.init, defaultNames]
  · intro b hb
    simp only [Store.init, defaultNames, List.zipIdx, List.map, List.mem_cons, List.not_mem_nil, or_false] at hb
    rcases hb with rfl | rfl | rfl | rfl | rfl <;> exact ⟨by simp, by simp⟩
  · intro e he; simp [Store.init] at he
  · intro e he; simp [Store.init] at he
  · simp [Store.init]
  · intro b hb l hl
    simp only [Store.init, defaultNames, List.zipIdx, List.map, List.mem_cons, List.not_mem_nil, or_false] at hb
    rcases hb with rfl | rfl | rfl | rfl | rfl <;> simp at hl

theorem inv_run (s : Store) (ops : List Op) (hi : Inv s) : Inv (run s ops) := by
  unfold run
  induction ops generalizing s with
  | nil => exact hi
  | cons op rest ih => simp only [List.foldl_cons]; exact ih _ (inv_step s op hi)

end Raven.Mail
