/-! The life of a connection as the read loops of the three services have it: in which states a session waits for client
bytes, which read deadline it sets there, and what a failed read — end of stream, or the deadline passing — does. Also the
accept / shutdown bookkeeping of the LMTP and SASL servers. -/
namespace Raven.Lifetime

/-- where a session can be waiting for the client -/
inductive St where
  | imapCmd        -- handleClient: a command line is awaited                 (30 min)
  | imapLiteral    -- APPEND: the announced literal octets are awaited          (5 min)
  | imapAuthWait   -- AUTHENTICATE PLAIN: "+ " sent, the response is awaited    (30 s)
  | imapIdle       -- IDLE: polling for DONE                                    (50 ms polls; logged off after 30 min)
  | lmtpCmd        -- Session.Handle: a command line is awaited                 (configured timeout, default 300 s)
  | lmtpData       -- DATA: message lines are awaited                           (same timeout, per line)
  | saslCmd        -- sasl handleConnection: a request line is awaited          (30 s)
  | closed         -- handler returned, connection closed
deriving DecidableEq, Repr

/-- what ends a wait without client bytes -/
inductive Fail where
  | eof          -- the client closed or reset the connection
  | deadline     -- the read deadline passed
deriving DecidableEq, Repr

/-- the read deadline set before the wait, in milliseconds (inside IDLE: the poll's) -/
def deadlineMs (lmtpTimeoutS : Nat) : St → Option Nat
  | .imapCmd => some (30 * 60 * 1000)
  | .imapLiteral => some (5 * 60 * 1000)
  | .imapAuthWait => some (30 * 1000)
  | .imapIdle => some 50
  | .lmtpCmd => some (lmtpTimeoutS * 1000)
  | .lmtpData => some (lmtpTimeoutS * 1000)
  | .saslCmd => some (30 * 1000)
  | .closed => some 0

/-- what the code does when the read fails. A failed literal or AUTHENTICATE read answers NO and returns to the command loop
(whose own read then fails); a failed DATA read rejects the transaction and returns to the LMTP command loop; inside IDLE a
poll that times out keeps polling, an end of stream ends the session. -/
def fail : St → Fail → St
  | .imapCmd, _ => .closed
  | .imapLiteral, _ => .imapCmd
  | .imapAuthWait, _ => .imapCmd
  | .imapIdle, .eof => .closed
  | .imapIdle, .deadline => .imapIdle
  | .lmtpCmd, _ => .closed
  | .lmtpData, _ => .lmtpCmd
  | .saslCmd, _ => .closed
  | .closed, _ => .closed

/-- `IdleTimeout`: how long a client may stay silent inside IDLE, in milliseconds -/
def idleLimitMs : Nat := 30 * 60 * 1000
/-- one round of the IDLE loop without client bytes: 500 ms sleep, the mailbox poll, a read with a 50 ms deadline -/
def idleRoundMs : Nat := 550

/-- what a silent client's session does at its next wait; the second component counts the milliseconds spent inside IDLE and
`d` is how long one round of the IDLE loop takes. At the head of each round the loop compares the time spent with the limit:
past it the client is told BYE and the connection is closed. Everywhere else the wait ends with its read deadline. -/
def silentStep (d : Nat) : St × Nat → St × Nat
  | (.imapIdle, e) => if e ≥ idleLimitMs then (.closed, e) else (.imapIdle, e + d)
  | (s, e) => (fail s .deadline, e)

def silentRun (d : Nat) : Nat → St × Nat → St × Nat
  | 0, x => x
  | n + 1, x => silentRun d n (silentStep d x)

/-- the IDLE loop of a silent client, round by round: `k` rounds of `d` ms from `e` ms -/
theorem idle_rounds (d : Nat) : ∀ (k e : Nat), e + k * d < idleLimitMs + d → k * d ≤ idleLimitMs + d →
    (∀ j < k, e + j * d < idleLimitMs) → silentRun d k (.imapIdle, e) = (.imapIdle, e + k * d)
  | 0, e, _, _, _ => by simp [silentRun]
  | k + 1, e, h1, h2, h3 => by
    have h0 : ¬ e ≥ idleLimitMs := by have := h3 0 (by omega); omega
    simp only [silentRun, silentStep, h0, if_false]
    rw [idle_rounds d k (e + d)]
    · congr 1; rw [Nat.succ_mul]; omega
    · rw [Nat.succ_mul] at h1; omega
    · rw [Nat.succ_mul] at h2; omega
    · intro j hj
      have := h3 (j + 1) (by omega)
      rw [Nat.succ_mul] at this; omega

/-- the wait, in milliseconds, until a silent client's session has ended (`none`: never) -/
def silenceBound (t : Nat) : St → Option Nat
  | .imapIdle => some (idleLimitMs + idleRoundMs)
  | .closed => some 0
  | s =>
    match deadlineMs t s, deadlineMs t (fail s .deadline) with
    | some a, some b => some (a + b)
    | _, _ => none

/-! ## accept loop / shutdown (lmtp.Server and sasl.Server share the shape) -/
structure Srv where
  listening : Bool      -- listeners open
  stopping : Bool       -- shutdown channel closed
  conns : Nat           -- connection goroutines in flight (the wait group minus the acceptors)
  acceptors : Nat       -- accept loops running
deriving DecidableEq, Repr

inductive SEv where
  | dial          -- a client connects
  | connDone      -- a connection goroutine returns
  | shutdown      -- Shutdown() is called
  | acceptorExit  -- an accept loop notices the closed listener and returns
deriving DecidableEq, Repr

/-- `accepted` says whether a dial got a connection goroutine -/
def sstep (s : Srv) : SEv → Srv × Bool
  | .dial => if s.listening then ({ s with conns := s.conns + 1 }, true) else (s, false)
  | .connDone => ({ s with conns := s.conns - 1 }, false)
  | .shutdown => ({ s with listening := false, stopping := true }, false)
  | .acceptorExit => if s.stopping then ({ s with acceptors := s.acceptors - 1 }, false) else (s, false)

def srun : Srv → List SEv → Srv × List Bool
  | s, [] => (s, [])
  | s, e :: es =>
    let (s', a) := sstep s e
    let (s'', as) := srun s' es
    (s'', a :: as)

/-- `Start()` returns (`wg.Wait()` falls through) -/
def startReturned (s : Srv) : Bool := s.conns = 0 && s.acceptors = 0

end Raven.Lifetime
