import RavenModel.Model.Mail
/-! The selected-state part of an IMAP session over one store: which mailbox is selected and whether it was opened
with EXAMINE (`ClientState.SelectedMailboxID`, `ReadOnly`). -/
namespace Raven.Mail
open Raven

structure Sel where
  box : Bytes
  readOnly : Bool
deriving Repr, DecidableEq

inductive Cmd where
  | select (box : Bytes)
  | examine (box : Bytes)
  | store (new : List Bytes) (mode : Flags.Mode) (ranks : List Nat)
  | uidStore (new : List Bytes) (mode : Flags.Mode) (uids : List Nat)
  | expunge
  | uidExpunge (uids : List Nat)
  | close
  | unselect

/-- one selected-state command; `Res.no` for "nothing selected", "[READ-ONLY]" and a failed SELECT -/
def sessStep (s : Store) (sel : Option Sel) : Cmd → Store × Option Sel × Res
  | .select b => if s.has b then (s, some ⟨b, false⟩, .ok) else (s, none, .no)
  | .examine b => if s.has b then (s, some ⟨b, true⟩, .ok) else (s, none, .no)
  | .store new mode ranks =>
    match sel with
    | none => (s, sel, .no)
    | some x => if x.readOnly then (s, sel, .no) else
        if ranks.isEmpty then (s, sel, .bad) else ((s.storeSeq x.box new mode ranks).1, sel, .ok)
  | .uidStore new mode uids =>
    match sel with
    | none => (s, sel, .no)
    | some x => if x.readOnly then (s, sel, .no) else ((s.storeUid x.box new mode uids).1, sel, .ok)
  | .expunge =>
    match sel with
    | none => (s, sel, .no)
    | some x => if x.readOnly then (s, sel, .no) else ((s.expunge x.box).1, sel, .ok)
  | .uidExpunge uids =>
    match sel with
    | none => (s, sel, .no)
    | some x => if x.readOnly then (s, sel, .no) else ((s.uidExpunge x.box uids).1, sel, .ok)
  | .close =>
    match sel with
    | none => (s, sel, .no)
    | some x => if x.readOnly then (s, none, .ok) else ((s.expunge x.box).1, none, .ok)
  | .unselect =>
    match sel with
    | none => (s, sel, .no)
    | some _ => (s, none, .ok)

def sessRun (s : Store) (sel : Option Sel) : List Cmd → Store × Option Sel
  | [] => (s, sel)
  | c :: cs => let r := sessStep s sel c; sessRun r.1 r.2.1 cs

/-- the selection is read-only or absent -/
def roSel : Option Sel → Bool
  | none => true
  | some x => x.readOnly

def Cmd.isSelect : Cmd → Bool
  | .select _ => true
  | _ => false

theorem sessStep_ro (s : Store) (sel : Option Sel) (c : Cmd) (hro : roSel sel = true) (hc : c.isSelect = false) :
    (sessStep s sel c).1 = s ∧ roSel (sessStep s sel c).2.1 = true := by
  cases c with
  | select b => simp [Cmd.isSelect] at hc
  | examine b => simp only [sessStep]; split <;> simp [roSel]
  | store new mode ranks =>
    cases sel with
    | none => simp [sessStep, roSel]
    | some x => simp only [roSel] at hro; simp [sessStep, hro, roSel]
  | uidStore new mode uids =>
    cases sel with
    | none => simp [sessStep, roSel]
    | some x => simp only [roSel] at hro; simp [sessStep, hro, roSel]
  | expunge =>
    cases sel with
    | none => simp [sessStep, roSel]
    | some x => simp only [roSel] at hro; simp [sessStep, hro, roSel]
  | uidExpunge uids =>
    cases sel with
    | none => simp [sessStep, roSel]
    | some x => simp only [roSel] at hro; simp [sessStep, hro, roSel]
  | close =>
    cases sel with
    | none => simp [sessStep, roSel]
    | some x => simp only [roSel] at hro; simp [sessStep, hro, roSel]
  | unselect =>
    cases sel with
    | none => simp [sessStep, roSel]
    | some x => simp [sessStep, roSel]

theorem sessRun_ro (s : Store) (sel : Option Sel) (cs : List Cmd) (hro : roSel sel = true)
    (hc : ∀ c ∈ cs, c.isSelect = false) : (sessRun s sel cs).1 = s := by
  induction cs generalizing s sel with
  | nil => rfl
  | cons c cs ih =>
    have h := sessStep_ro s sel c hro (hc c (by simp))
    simp only [sessRun]
    rw [ih _ _ h.2 (fun c' hc' => hc c' (by simp [hc']))]
    exact h.1

end Raven.Mail
