/-! The shared, content-addressed blob store: `db.StoreBlobWithEncoding` selects by the hash of the *decoded* content, bumps the
reference count, else inserts the writer's *encoded* text (C15, C02.4). Keys and texts are abstract numbers: the hash is taken as
injective on the run. -/
namespace Raven.Blob

structure Part where
  key : Nat        -- sha256 of the *decoded* content (injectivity of the hash on the run is trusted)
  text : Nat       -- the encoded text as submitted (abstract)
deriving DecidableEq, Repr

structure Entry where
  key : Nat
  text : Nat
  refs : Nat
deriving DecidableEq, Repr

/-- StoreBlobWithEncoding: select by hash, bump the reference count, else insert the writer's text -/
def bump (k : Nat) (e : Entry) : Entry := if e.key = k then { e with refs := e.refs + 1 } else e
@[simp] theorem bump_key (k : Nat) (e : Entry) : (bump k e).key = e.key := by unfold bump; split <;> rfl
@[simp] theorem bump_text (k : Nat) (e : Entry) : (bump k e).text = e.text := by unfold bump; split <;> rfl

def store (bs : List Entry) (p : Part) : List Entry :=
  if bs.any (·.key == p.key) then bs.map (bump p.key)
  else bs ++ [⟨p.key, p.text, 1⟩]

def read (bs : List Entry) (k : Nat) : Option Nat := (bs.find? (·.key == k)).map (·.text)
def refs (bs : List Entry) (k : Nat) : Nat := ((bs.find? (·.key == k)).map (·.refs)).getD 0

def storeAll (ps : List Part) : List Entry := ps.foldl store []

/-- what a part reads back: the text of the first part ever stored under its key -/
def firstText (ps : List Part) (k : Nat) : Option Nat := (ps.find? (·.key == k)).map (·.text)

theorem read_store (bs : List Entry) (p : Part) (k : Nat) :
    read (store bs p) k = if (read bs k).isSome then read bs k else if p.key = k then some p.text else none := by
  unfold store read
  by_cases hany : bs.any (·.key == p.key) = true
  · simp only [hany, if_true]
    have hcomp : ((fun x : Entry => x.key == k) ∘ bump p.key) = (fun x : Entry => x.key == k) := by
      funext e; simp
    rw [List.find?_map, hcomp, Option.map_map]
    have htext : ((fun e : Entry => e.text) ∘ bump p.key) = (fun e : Entry => e.text) := by funext e; simp
    rw [htext]
    cases hf : bs.find? (·.key == k) with
    | none =>
      simp only [Option.map_none, Option.isSome_none, Bool.false_eq_true, if_false]
      -- p.key is present in bs, k is not: so p.key ≠ k
      have : ¬ p.key = k := by
        intro h; subst h
        obtain ⟨e, he, hek⟩ := List.any_eq_true.mp hany
        have := List.find?_eq_none.mp hf e he
        exact this hek
      simp [this]
    | some e => simp
  · have hany' : bs.any (·.key == p.key) = false := by simpa using hany
    simp only [hany', Bool.false_eq_true, if_false, List.find?_append]
    cases hf : bs.find? (·.key == k) with
    | some e => simp
    | none =>
      simp only [Option.none_or, Option.map_none, Option.isSome_none, Bool.false_eq_true, if_false]
      by_cases hk : p.key = k <;> simp [List.find?_cons, hk]

theorem read_storeAll_gen (bs : List Entry) (ps : List Part) (k : Nat) :
    read (ps.foldl store bs) k = if (read bs k).isSome then read bs k else firstText ps k := by
  induction ps generalizing bs with
  | nil => cases h : read bs k <;> simp [firstText, h]
  | cons p ps ih =>
    simp only [List.foldl_cons]
    rw [ih (store bs p), read_store]
    cases h : read bs k with
    | some t => simp
    | none =>
      simp only [Option.isSome_none, Bool.false_eq_true, if_false, firstText, List.find?_cons]
      by_cases hk : p.key = k
      · simp [hk]
      · have : (p.key == k) = false := by simpa using hk
        simp [hk, this]

/-- every part reads back the text of the first part stored under its key … -/
theorem read_storeAll (ps : List Part) (k : Nat) : read (storeAll ps) k = firstText ps k := by
  have := read_storeAll_gen [] ps k
  simpa [storeAll, read] using this

/-- … hence its own text, for every sequence of stores, provided equal keys mean equal encoded text -/
theorem readback_own (ps : List Part) (hno : ∀ p ∈ ps, ∀ q ∈ ps, p.key = q.key → p.text = q.text)
    (p : Part) (hp : p ∈ ps) : read (storeAll ps) p.key = some p.text := by
  rw [read_storeAll]
  unfold firstText
  cases hf : ps.find? (·.key == p.key) with
  | none =>
    have := List.find?_eq_none.mp hf p hp
    simp at this
  | some q =>
    have hq : q ∈ ps := List.mem_of_find?_eq_some hf
    have hk : q.key = p.key := by have := List.find?_some hf; simpa using this
    simp [hno q hq p hp hk]

/-- the finding, as a refutation of the unconditional statement: raw text vs its base64 form -/
example : read (storeAll [⟨7, 100⟩, ⟨7, 200⟩]) 7 = some 100 := by decide   -- the second part (text 200) reads 100

/-! reference counts -/
theorem refs_store (bs : List Entry) (p : Part) (k : Nat) :
    refs (store bs p) k = refs bs k + (if p.key = k then 1 else 0) := by
  unfold store refs
  by_cases hany : bs.any (·.key == p.key) = true
  · simp only [hany, if_true]
    have hcomp : ((fun x : Entry => x.key == k) ∘ bump p.key) = (fun x : Entry => x.key == k) := by
      funext e; simp
    rw [List.find?_map, hcomp, Option.map_map]
    cases hf : bs.find? (·.key == k) with
    | none =>
      have : ¬ p.key = k := by
        intro h; subst h
        obtain ⟨e, he, hek⟩ := List.any_eq_true.mp hany
        have := List.find?_eq_none.mp hf e he
        exact this hek
      simp [this]
    | some e =>
      have hek : e.key = k := by have := List.find?_some hf; simpa using this
      simp only [Option.map_some, Function.comp, Option.getD_some, bump]
      by_cases hk : p.key = k
      · simp [hk, hek]
      · have : ¬ e.key = p.key := by rw [hek]; exact fun h => hk h.symm
        simp [hk, this]
  · have hany' : bs.any (·.key == p.key) = false := by simpa using hany
    simp only [hany', Bool.false_eq_true, if_false, List.find?_append]
    cases hf : bs.find? (·.key == k) with
    | some e =>
      have hek : e.key = k := by have := List.find?_some hf; simpa using this
      have hmem : e ∈ bs := List.mem_of_find?_eq_some hf
      have : ¬ p.key = k := by
        intro h
        have h2 := List.any_eq_false.mp hany' e hmem
        simp [hek, h] at h2
      simp [this]
    | none =>
      by_cases hk : p.key = k <;> simp [List.find?_cons, hk]

/-- `reference_count` of a key = the number of parts ever stored under it, for every sequence of stores -/
theorem refs_storeAll_gen (bs : List Entry) (ps : List Part) (k : Nat) :
    refs (ps.foldl store bs) k = refs bs k + (ps.filter (fun p => p.key == k)).length := by
  induction ps generalizing bs with
  | nil => simp
  | cons p ps ih =>
    simp only [List.foldl_cons]
    rw [ih (store bs p), refs_store]
    by_cases hk : p.key = k
    · simp [hk, List.filter_cons]; omega
    · have : (p.key == k) = false := by simpa using hk
      simp [hk, List.filter_cons, this]

theorem refs_storeAll (ps : List Part) (k : Nat) : refs (storeAll ps) k = (ps.filter (fun p => p.key == k)).length := by
  have := refs_storeAll_gen [] ps k
  simpa [storeAll, refs] using this

end Raven.Blob
