import RavenModel.Base.GoStr
import RavenModel.Base.Dec
import RavenModel.Model.SeqSet
/-! SEARCH: the search-key language as the evaluator reads it — tokens (a parenthesised group is one token holding its own
tokens), `searchKeyLen` / `evaluateTokens` as one parse-and-evaluate function over token lists (an incomplete key is an
error, not an index beyond the end), and the reference evaluator over key trees. -/
namespace Raven.Search
open Raven Raven.GoStr

/-! ## tokens -/
inductive Tok where
  | seq (s : Bytes)        -- looks like a sequence set
  | kw0 (a : Bytes)        -- ALL, SEEN, DELETED, …            (no argument)
  | kw1 (a : Bytes)        -- FROM, KEYWORD, LARGER, UID, …   (one argument)
  | hdr                    -- HEADER                           (two arguments)
  | notT
  | orT
  | other (x : Bytes)      -- anything else: an argument, an unknown word, an unclosed parenthesis
  | group (raw : Bytes) (inner : List Tok)   -- "( … )": its text (when it stands where an argument is expected) and its keys

/-- message-dependent primitives -/
structure Prim where
  seqOK : Bytes → Bool
  a0 : Bytes → Bool
  a1 : Bytes → Tok → Bool
  h2 : Tok → Tok → Bool

/-- how a word that is no key is treated: the specification refuses it; SEARCH skips it unless it begins with a parenthesis
(an unclosed group); UID SEARCH skips everything it does not know -/
inductive Mode where
  | spec | search | uid
deriving DecidableEq, Repr

def startsParen (x : Bytes) : Bool := match x with | c :: _ => c = b_lp | [] => false

def otherOK : Mode → Bytes → Bool
  | .spec, _ => false
  | .search, x => !startsParen x
  | .uid, _ => true

variable (P : Prim) (m : Mode)

/-! ## parse and evaluate
`evalKey` reads one search key from the front of the token list and returns its value on the message and the rest;
`evalKeys` is the conjunction of all keys of a list. `none`: a key is incomplete (argument or sub-key missing) or, depending
on the mode, a word is no key. The fuel bounds the nesting; `2 * tokens + 2` always suffices. -/
mutual
def evalKey : Nat → List Tok → Option (Bool × List Tok)
  | 0, _ => none
  | _ + 1, [] => none
  | _ + 1, .seq s :: r => some (P.seqOK s, r)
  | _ + 1, .kw0 a :: r => some (P.a0 a, r)
  | _ + 1, .kw1 a :: x :: r => some (P.a1 a x, r)
  | _ + 1, [.kw1 _] => none
  | _ + 1, .hdr :: f :: v :: r => some (P.h2 f v, r)
  | _ + 1, [.hdr] => none
  | _ + 1, [.hdr, _] => none
  | f + 1, .notT :: r =>
    match evalKey f r with
    | some (b, r') => some (!b, r')
    | none => none
  | f + 1, .orT :: r =>
    match evalKey f r with
    | some (a, r1) =>
      match evalKey f r1 with
      | some (b, r2) => some (a || b, r2)
      | none => none
    | none => none
  | f + 1, .group _ inner :: r =>
    match evalKeys f inner with
    | some b => some (b, r)
    | none => none
  | _ + 1, .other x :: r => if otherOK m x then some (true, r) else none
def evalKeys : Nat → List Tok → Option Bool
  | 0, _ => none
  | _ + 1, [] => some true
  | f + 1, t :: r =>
    match evalKey f (t :: r) with
    | some (b, rest) =>
      match evalKeys f rest with
      | some c => some (b && c)
      | none => none
    | none => none
end

/-! ## the specification: key trees and their value -/
mutual
inductive Key where
  | seq (s : Bytes)
  | k0 (a : Bytes)
  | k1 (a : Bytes) (x : Tok)
  | hdr (f v : Tok)
  | not (k : Key)
  | or (a b : Key)
  | group (raw : Bytes) (ks : Keys)
inductive Keys where
  | nil
  | cons (k : Key) (ks : Keys)
end

mutual
def Key.eval : Key → Bool
  | .seq s => P.seqOK s
  | .k0 a => P.a0 a
  | .k1 a x => P.a1 a x
  | .hdr f v => P.h2 f v
  | .not k => !(k.eval)
  | .or a b => a.eval || b.eval
  | .group _ ks => ks.eval
def Keys.eval : Keys → Bool
  | .nil => true
  | .cons k ks => k.eval && ks.eval
end

mutual
def Key.print : Key → List Tok
  | .seq s => [.seq s]
  | .k0 a => [.kw0 a]
  | .k1 a x => [.kw1 a, x]
  | .hdr f v => [.hdr, f, v]
  | .not k => .notT :: k.print
  | .or a b => .orT :: (a.print ++ b.print)
  | .group raw ks => [.group raw ks.print]
def Keys.print : Keys → List Tok
  | .nil => []
  | .cons k ks => k.print ++ ks.print
end

/-! fuel that suffices for a key / a list of keys -/
mutual
def Key.cost : Key → Nat
  | .seq _ => 1
  | .k0 _ => 1
  | .k1 _ _ => 1
  | .hdr _ _ => 1
  | .not k => 1 + k.cost
  | .or a b => 1 + a.cost + b.cost
  | .group _ ks => 1 + ks.cost
def Keys.cost : Keys → Nat
  | .nil => 1
  | .cons k ks => 1 + k.cost + ks.cost
end

theorem Key.print_ne_nil : ∀ k : Key, ∃ t r, k.print = t :: r
  | .seq _ => ⟨_, _, rfl⟩
  | .k0 _ => ⟨_, _, rfl⟩
  | .k1 _ _ => ⟨_, _, rfl⟩
  | .hdr _ _ => ⟨_, _, rfl⟩
  | .not _ => ⟨_, _, rfl⟩
  | .or _ _ => ⟨_, _, rfl⟩
  | .group _ _ => ⟨_, _, rfl⟩

theorem Key.cost_pos : ∀ k : Key, 1 ≤ k.cost
  | .seq _ => by simp [Key.cost]
  | .k0 _ => by simp [Key.cost]
  | .k1 _ _ => by simp [Key.cost]
  | .hdr _ _ => by simp [Key.cost]
  | .not _ => by simp [Key.cost]
  | .or _ _ => by simp only [Key.cost]; omega
  | .group _ _ => by simp [Key.cost]

/-- the evaluator on the printed form of a key tree, followed by anything, reads exactly that key, gives it the value the
reference evaluator gives, and leaves the rest — in every mode, for every nesting of NOT, OR and groups -/
theorem evalKey_print_aux : ∀ (n : Nat),
    (∀ (k : Key) (rest : List Tok) (fuel : Nat), k.cost ≤ n → k.cost ≤ fuel →
      evalKey P m fuel (k.print ++ rest) = some (k.eval P, rest)) ∧
    (∀ (ks : Keys) (fuel : Nat), ks.cost ≤ n → ks.cost ≤ fuel → evalKeys P m fuel ks.print = some (ks.eval P)) := by
  intro n
  induction n with
  | zero =>
    constructor
    · intro k rest fuel h; have := Key.cost_pos k; omega
    · intro ks fuel h; cases ks <;> simp only [Keys.cost] at h <;> omega
  | succ n ih =>
    obtain ⟨ihk, ihks⟩ := ih
    constructor
    · intro k rest fuel hn hf
      cases k with
      | seq s => cases fuel with | zero => simp [Key.cost] at hf | succ f => simp [Key.print, evalKey, Key.eval]
      | k0 a => cases fuel with | zero => simp [Key.cost] at hf | succ f => simp [Key.print, evalKey, Key.eval]
      | k1 a x => cases fuel with | zero => simp [Key.cost] at hf | succ f => simp [Key.print, evalKey, Key.eval]
      | hdr f v => cases fuel with | zero => simp [Key.cost] at hf | succ f => simp [Key.print, evalKey, Key.eval]
      | not k =>
        cases fuel with
        | zero => simp [Key.cost] at hf
        | succ f =>
          simp only [Key.cost] at hn hf
          have := ihk k rest f (by omega) (by omega)
          simp [Key.print, evalKey, this, Key.eval]
      | or a b =>
        cases fuel with
        | zero => simp [Key.cost] at hf
        | succ f =>
          simp only [Key.cost] at hn hf
          have ha := ihk a (b.print ++ rest) f (by omega) (by omega)
          have hb := ihk b rest f (by omega) (by omega)
          simp [Key.print, evalKey, List.append_assoc, ha, hb, Key.eval]
      | group raw ks =>
        cases fuel with
        | zero => simp [Key.cost] at hf
        | succ f =>
          simp only [Key.cost] at hn hf
          have := ihks ks f (by omega) (by omega)
          simp [Key.print, evalKey, this, Key.eval]
    · intro ks fuel hn hf
      cases ks with
      | nil =>
        cases fuel with
        | zero => simp [Keys.cost] at hf
        | succ f => simp [Keys.print, evalKeys, Keys.eval]
      | cons k ks =>
        cases fuel with
        | zero => simp [Keys.cost] at hf
        | succ f =>
          simp only [Keys.cost] at hn hf
          obtain ⟨t, r, hp⟩ := Key.print_ne_nil k
          have hk := ihk k ks.print f (by omega) (by omega)
          have hks := ihks ks f (by omega) (by omega)
          simp only [Keys.print]
          have : k.print ++ ks.print = t :: (r ++ ks.print) := by rw [hp]; rfl
          rw [this, evalKeys]
          rw [← this]
          simp only [hk, hks]
          simp [Keys.eval]

theorem evalKeys_print (ks : Keys) (fuel : Nat) (h : ks.cost ≤ fuel) :
    evalKeys P m fuel ks.print = some (ks.eval P) :=
  (evalKey_print_aux P m ks.cost).2 ks fuel (Nat.le_refl _) h

/-! ## modes: what the specification lets through, SEARCH lets through; what SEARCH lets through, UID SEARCH evaluates alike -/
def Mode.le : Mode → Mode → Bool
  | .spec, _ => true
  | .search, .spec => false
  | .search, _ => true
  | .uid, .uid => true
  | .uid, _ => false

theorem otherOK_mono {a b : Mode} (h : Mode.le a b = true) (x : Bytes) (hx : otherOK a x = true) : otherOK b x = true := by
  cases a <;> cases b <;> simp_all [otherOK, Mode.le]

theorem eval_mode_mono {a b : Mode} (h : Mode.le a b = true) : ∀ (fuel : Nat),
    (∀ ts r, evalKey P a fuel ts = some r → evalKey P b fuel ts = some r) ∧
    (∀ ts v, evalKeys P a fuel ts = some v → evalKeys P b fuel ts = some v) := by
  intro fuel
  induction fuel with
  | zero => exact ⟨fun ts r hh => by simp [evalKey] at hh, fun ts v hh => by simp [evalKeys] at hh⟩
  | succ f ih =>
    obtain ⟨ihk, ihks⟩ := ih
    constructor
    · intro ts r hh
      match ts with
      | [] => simp [evalKey] at hh
      | .seq s :: r' => simpa [evalKey] using hh
      | .kw0 s :: r' => simpa [evalKey] using hh
      | .kw1 s :: x :: r' => simpa [evalKey] using hh
      | [.kw1 _] => simp [evalKey] at hh
      | .hdr :: x :: y :: r' => simpa [evalKey] using hh
      | [.hdr] => simp [evalKey] at hh
      | [.hdr, _] => simp [evalKey] at hh
      | .notT :: r' =>
        simp only [evalKey] at hh ⊢
        cases h1 : evalKey P a f r' with
        | none => simp [h1] at hh
        | some p => rw [ihk r' p h1]; simpa [h1] using hh
      | .orT :: r' =>
        simp only [evalKey] at hh ⊢
        cases h1 : evalKey P a f r' with
        | none => simp [h1] at hh
        | some p =>
          obtain ⟨x, r1⟩ := p
          rw [ihk r' _ h1]
          simp only [h1] at hh
          cases h2 : evalKey P a f r1 with
          | none => simp [h2] at hh
          | some q => simp only [ihk r1 q h2]; simpa [h2] using hh
      | .group raw inner :: r' =>
        simp only [evalKey] at hh ⊢
        cases h1 : evalKeys P a f inner with
        | none => simp [h1] at hh
        | some v => rw [ihks inner v h1]; simpa [h1] using hh
      | .other x :: r' =>
        simp only [evalKey] at hh ⊢
        by_cases hx : otherOK a x = true
        · simp only [hx, if_true] at hh
          simp only [otherOK_mono h x hx, if_true]; exact hh
        · simp [hx] at hh
    · intro ts v hh
      match ts with
      | [] => simpa [evalKeys] using hh
      | t :: r' =>
        simp only [evalKeys] at hh ⊢
        cases h1 : evalKey P a f (t :: r') with
        | none => simp [h1] at hh
        | some p =>
          obtain ⟨x, rest⟩ := p
          rw [ihk _ _ h1]
          simp only [h1] at hh
          cases h2 : evalKeys P a f rest with
          | none => simp [h2] at hh
          | some c => simp only [ihks rest c h2]; simpa [h2] using hh

/-- whether a program is well formed does not depend on the message it is evaluated on: the rest a key leaves, and whether
a list of keys has a value at all, are the same for any two messages -/
theorem wellformed_indep (Q : Prim) : ∀ (fuel : Nat),
    (∀ ts, ((evalKey P m fuel ts).map (·.2)) = ((evalKey Q m fuel ts).map (·.2))) ∧
    (∀ ts, (evalKeys P m fuel ts).isSome = (evalKeys Q m fuel ts).isSome) := by
  intro fuel
  induction fuel with
  | zero => exact ⟨fun ts => by simp [evalKey], fun ts => by simp [evalKeys]⟩
  | succ f ih =>
    obtain ⟨ihk, ihks⟩ := ih
    constructor
    · intro ts
      match ts with
      | [] => simp [evalKey]
      | .seq s :: r' => simp [evalKey]
      | .kw0 s :: r' => simp [evalKey]
      | .kw1 s :: x :: r' => simp [evalKey]
      | [.kw1 _] => simp [evalKey]
      | .hdr :: x :: y :: r' => simp [evalKey]
      | [.hdr] => simp [evalKey]
      | [.hdr, _] => simp [evalKey]
      | .notT :: r' =>
        simp only [evalKey]
        have := ihk r'
        cases h1 : evalKey P m f r' <;> cases h2 : evalKey Q m f r' <;> simp_all
      | .orT :: r' =>
        simp only [evalKey]
        have h0 := ihk r'
        cases h1 : evalKey P m f r' with
        | none =>
          cases h2 : evalKey Q m f r' with
          | none => rfl
          | some q => simp [h1, h2] at h0
        | some p =>
          cases h2 : evalKey Q m f r' with
          | none => simp [h1, h2] at h0
          | some q =>
            obtain ⟨pa, pr⟩ := p
            obtain ⟨qa, qr⟩ := q
            have hr : pr = qr := by simpa [h1, h2] using h0
            subst hr
            have h3 := ihk pr
            cases h4 : evalKey P m f pr <;> cases h5 : evalKey Q m f pr <;> simp_all
      | .group raw inner :: r' =>
        simp only [evalKey]
        have := ihks inner
        cases h1 : evalKeys P m f inner <;> cases h2 : evalKeys Q m f inner <;> simp_all
      | .other x :: r' =>
        simp only [evalKey]
    · intro ts
      match ts with
      | [] => simp [evalKeys]
      | t :: r' =>
        simp only [evalKeys]
        have h0 := ihk (t :: r')
        cases h1 : evalKey P m f (t :: r') with
        | none =>
          cases h2 : evalKey Q m f (t :: r') with
          | none => rfl
          | some q => simp [h1, h2] at h0
        | some p =>
          cases h2 : evalKey Q m f (t :: r') with
          | none => simp [h1, h2] at h0
          | some q =>
            obtain ⟨pa, pr⟩ := p
            obtain ⟨qa, qr⟩ := q
            have hr : pr = qr := by simpa [h1, h2] using h0
            subst hr
            have h3 := ihks pr
            cases h4 : evalKeys P m f pr <;> cases h5 : evalKeys Q m f pr <;> simp_all

end Raven.Search
