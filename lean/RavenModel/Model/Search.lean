import RavenModel.Base.GoStr
import RavenModel.Base.Dec
import RavenModel.Model.SeqSet
/-! SEARCH: the tokeniser `parseSearchTokens`, the token loop `evaluateTokens` with its arity rules (as a total function:
`none` would be a Go index panic), the validation pass that refuses unsupported keys, and a reference evaluator. -/
namespace Raven.Search
open Raven Raven.GoStr

/-! ## tokens -/
inductive Tok where
  | seq (s : Bytes)        -- looks like a sequence set
  | kw0 (a : Bytes)        -- ALL, SEEN, DELETED, …            (no argument)
  | kw1 (a : Bytes)        -- FROM, KEYWORD, LARGER, UID, …   (one argument)
  | hdr                    -- HEADER                           (two arguments)
  | notT
  | orT
  | other (x : Bytes)      -- anything else: an argument, an unknown key, a parenthesised group
deriving DecidableEq, Repr

/-- message-dependent primitives -/
structure Prim where
  seqOK : Bytes → Bool
  a0 : Bytes → Bool
  a1 : Bytes → Tok → Bool
  h2 : Tok → Tok → Bool

def requiresArg : Tok → Bool
  | .kw1 _ => true
  | .hdr => true
  | _ => false

variable (P : Prim)

/-- evaluateTokens on a one-token list -/
def eval1 : Tok → Bool
  | .seq s => P.seqOK s
  | .kw0 a => P.a0 a
  | .kw1 _ => false        -- argument missing
  | .hdr => false
  | .notT => false
  | .orT => false
  | .other _ => true       -- unknown key: skipped by the loop (the validation pass refuses such programs beforehand)

/-- evaluateTokens on [k, x] where requiresArg k -/
def evalArg : Tok → Tok → Bool
  | .kw1 a, x => P.a1 a x
  | _, _ => false          -- HEADER needs two arguments

/-- the token loop -/
def eval : List Tok → Option Bool
  | [] => some true
  | .seq s :: rest => (eval rest).map (P.seqOK s && ·)
  | .kw0 a :: rest => (eval rest).map (P.a0 a && ·)
  | .kw1 a :: rest =>
    match rest with
    | [] => some false
    | x :: r => (eval r).map (P.a1 a x && ·)
  | .hdr :: rest =>
    match rest with
    | f :: v :: r => (eval r).map (P.h2 f v && ·)
    | _ => some false
  | .notT :: rest =>
    match rest with
    | [] => some false
    | k :: r =>
      if requiresArg k then
        match r with
        | x :: r2 => (eval r2).map (!(evalArg P k x) && ·)
        | [] => some (!(eval1 P k))
      else (eval r).map (!(eval1 P k) && ·)
  | .orT :: rest =>
    match rest with
    | [] => some false
    | [_] => some false                       -- i+2 >= len
    | k :: y :: r =>
      if requiresArg k then
        -- key1 = [k, y]; key2 starts at r
        match r with
        | [] => some false                     -- the first key used up the last token: the second key is missing
        | k2 :: r2 =>
          if requiresArg k2 then
            match r2 with
            | z :: r3 => (eval r3).map ((evalArg P k y || evalArg P k2 z) && ·)
            | [] => some (evalArg P k y || eval1 P k2)
          else (eval r2).map ((evalArg P k y || eval1 P k2) && ·)
      else
        -- key1 = [k]; key2 starts at y
        if requiresArg y then
          match r with
          | z :: r3 => (eval r3).map ((eval1 P k || evalArg P y z) && ·)
          | [] => some (eval1 P k || eval1 P y)
        else (eval r).map ((eval1 P k || eval1 P y) && ·)
  | .other _ :: rest => eval rest

/-! ## specification: the supported fragment -/
inductive Simple where
  | seq (s : Bytes) | k0 (a : Bytes) | k1 (a : Bytes) (x : Tok)
inductive Item where
  | s (k : Simple) | hdr (f v : Tok) | not (k : Simple) | or (a b : Simple)

def Simple.eval : Simple → Bool
  | .seq s => P.seqOK s
  | .k0 a => P.a0 a
  | .k1 a x => P.a1 a x
def Item.eval : Item → Bool
  | .s k => k.eval P
  | .hdr f v => P.h2 f v
  | .not k => !(k.eval P)
  | .or a b => a.eval P || b.eval P

def Simple.print : Simple → List Tok
  | .seq s => [.seq s]
  | .k0 a => [.kw0 a]
  | .k1 a x => [.kw1 a, x]
def Item.print : Item → List Tok
  | .s k => k.print
  | .hdr f v => [.hdr, f, v]
  | .not k => .notT :: k.print
  | .or a b => .orT :: (a.print ++ b.print)

/-- on the supported fragment the token loop computes the conjunction of the items -/
theorem eval_correct (items : List Item) : eval P (items.flatMap Item.print) = some (items.all (Item.eval P)) := by
  induction items with
  | nil => rfl
  | cons it rest ih =>
    simp only [List.flatMap_cons, List.all_cons]
    cases it with
    | s k =>
      cases k with
      | seq s => simp [Item.print, Simple.print, eval, ih, Item.eval, Simple.eval]
      | k0 a => simp [Item.print, Simple.print, eval, ih, Item.eval, Simple.eval]
      | k1 a x => simp [Item.print, Simple.print, eval, ih, Item.eval, Simple.eval]
    | hdr f v => simp [Item.print, eval, ih, Item.eval]
    | not k =>
      cases k with
      | seq s =>
        show eval P (Tok.notT :: Tok.seq s :: rest.flatMap Item.print) = _
        rw [eval.eq_def]; simp [ih, Item.eval, Simple.eval, requiresArg, eval1]
      | k0 a =>
        show eval P (Tok.notT :: Tok.kw0 a :: rest.flatMap Item.print) = _
        rw [eval.eq_def]; simp [ih, Item.eval, Simple.eval, requiresArg, eval1]
      | k1 a x =>
        show eval P (Tok.notT :: Tok.kw1 a :: x :: rest.flatMap Item.print) = _
        rw [eval.eq_def]; simp [ih, Item.eval, Simple.eval, requiresArg, evalArg]
    | or a b =>
      cases a <;> cases b <;>
        (simp only [Item.print, Simple.print, List.cons_append, List.nil_append]
         rw [eval.eq_def]
         simp [ih, Item.eval, Simple.eval, requiresArg, eval1, evalArg])

/-- the loop is total: it answers for every token list (an index beyond the end — a Go panic — cannot happen) -/
theorem eval_total : ∀ (ts : List Tok), (eval P ts).isSome = true := by
  intro ts
  induction ts using eval.induct <;>
    first
    | (simp_all [eval]; done)
    | (rw [eval.eq_def]; simp_all)

/-! ## validation: the keys the evaluator implements (anything else is answered BAD) -/
/-- a parenthesised group (`strings.HasPrefix(token, "(")`) -/
def isGroup (x : Bytes) : Bool := match x with | c :: _ => c = b_lp | [] => false

/-- a word that is no key: with `lenient` (what the code does) it is skipped unless it is a parenthesised group, without
(what the property demands) it is refused -/
def otherOK (lenient : Bool) (x : Bytes) : Bool := lenient && !isGroup x

/-- the same walk as the loop, deciding only whether every key position holds a supported key with its arguments present.
`validateSearchTokens` / `simpleSearchKeyLen` are `validG true`. -/
def validG (lenient : Bool) : List Tok → Bool
  | [] => true
  | .seq _ :: rest => validG lenient rest
  | .kw0 _ :: rest => validG lenient rest
  | .kw1 _ :: _ :: r => validG lenient r
  | .hdr :: _ :: _ :: r => validG lenient r
  | .notT :: .seq _ :: r => validG lenient r
  | .notT :: .kw0 _ :: r => validG lenient r
  | .notT :: .kw1 _ :: _ :: r => validG lenient r
  | .notT :: .other x :: r => otherOK lenient x && validG lenient r
  | .orT :: .seq _ :: r => validKey2 r
  | .orT :: .kw0 _ :: r => validKey2 r
  | .orT :: .kw1 _ :: _ :: r => validKey2 r
  | .orT :: .other x :: r => otherOK lenient x && validKey2 r
  | .other x :: rest => otherOK lenient x && validG lenient rest
  | _ => false
where
  validKey2 : List Tok → Bool
    | .seq _ :: r => validG lenient r
    | .kw0 _ :: r => validG lenient r
    | .kw1 _ :: _ :: r => validG lenient r
    | .other x :: r => otherOK lenient x && validG lenient r
    | _ => false

/-- what the code accepts -/
abbrev valid : List Tok → Bool := validG true
/-- what the property lets through: the supported fragment and nothing else -/
abbrev strictValid : List Tok → Bool := validG false

theorem valid_print (l : Bool) (items : List Item) : validG l (items.flatMap Item.print) = true := by
  induction items with
  | nil => rfl
  | cons it rest ih =>
    simp only [List.flatMap_cons]
    cases it with
    | s k => cases k <;> simp [Item.print, Simple.print, validG, ih]
    | hdr f v => simp [Item.print, validG, ih]
    | not k => cases k <;> simp [Item.print, Simple.print, validG, ih]
    | or a b => cases a <;> cases b <;> simp [Item.print, Simple.print, validG, validG.validKey2, ih]

/-- the strict pass accepts nothing the code refuses -/
theorem strict_le (ts : List Tok) : validG false ts = true → validG true ts = true := by
  apply validG.induct
    (motive_2 := fun ts => validG false ts = true → validG true ts = true)
    (motive_1 := fun r => validG.validKey2 false r = true → validG.validKey2 true r = true) <;>
    simp_all [validG, validG.validKey2, otherOK]

end Raven.Search
