import RavenModel.Model.MailInv
/-! UIDNEXT never decreases: every mailbox of a later store either descends from a mailbox of the earlier store — same
incarnation, UIDNEXT at least as large — or is a new incarnation. The relation is reflexive and transitive by itself, every
operation satisfies it, hence every history does. -/
namespace Raven.Mail
open Raven Raven.GoStr Raven.Flags Raven.SeqSet

def Desc (s s' : Store) : Prop :=
  s.nextInc ≤ s'.nextInc ∧
  ∀ b' ∈ s'.boxes, (∃ b ∈ s.boxes, b.inc = b'.inc ∧ b.uidNext ≤ b'.uidNext) ∨ s.nextInc ≤ b'.inc

theorem Desc.refl (s : Store) : Desc s s :=
  ⟨Nat.le_refl _, fun b hb => Or.inl ⟨b, hb, rfl, Nat.le_refl _⟩⟩

theorem Desc.trans {a b c : Store} (h1 : Desc a b) (h2 : Desc b c) : Desc a c := by
  refine ⟨Nat.le_trans h1.1 h2.1, ?_⟩
  intro x hx
  rcases h2.2 x hx with ⟨y, hy, hinc, hle⟩ | hnew
  · rcases h1.2 y hy with ⟨z, hz, hinc', hle'⟩ | hnew'
    · exact Or.inl ⟨z, hz, hinc'.trans hinc, Nat.le_trans hle' hle⟩
    · exact Or.inr (by omega)
  · exact Or.inr (Nat.le_trans h1.1 hnew)

/-- changing mailboxes in place, keeping their incarnation and not lowering UIDNEXT -/
theorem desc_mapBoxes (s : Store) (f : Mbox → Mbox) (lg : List Entry) (sb : List Bytes)
    (hf : ∀ b, (f b).inc = b.inc ∧ b.uidNext ≤ (f b).uidNext) :
    Desc s { s with boxes := s.boxes.map f, log := lg, subs := sb } := by
  refine ⟨Nat.le_refl _, ?_⟩
  intro b' hb'
  obtain ⟨b, hb, rfl⟩ := List.mem_map.mp hb'
  exact Or.inl ⟨b, hb, (hf b).1.symm, (hf b).2⟩

theorem desc_modify (s : Store) (n : Bytes) (f : Mbox → Mbox) (hf : ∀ b, (f b).inc = b.inc ∧ b.uidNext ≤ (f b).uidNext) :
    Desc s (s.modify n f) := by
  have := desc_mapBoxes s (fun b => if b.name = n then f b else b) s.log s.subs (by
    intro b; by_cases h : b.name = n <;> simp [h, hf b])
  simpa [Store.modify] using this

theorem desc_log (s : Store) (lg : List Entry) : Desc s { s with log := lg } :=
  ⟨Nat.le_refl _, fun b hb => Or.inl ⟨b, hb, rfl, Nat.le_refl _⟩⟩

theorem desc_subs (s : Store) (x : List Bytes) : Desc s { s with subs := x } :=
  ⟨Nat.le_refl _, fun b hb => Or.inl ⟨b, hb, rfl, Nat.le_refl _⟩⟩

theorem desc_add (s : Store) (n : Bytes) (msg : Nat) (fl : List Bytes) : Desc s (s.add n msg fl).1 := by
  unfold Store.add
  split
  · exact Desc.refl s
  · exact Desc.trans (desc_modify s n _ (by intro b; simp [Mbox.push])) (desc_log _ _)

theorem desc_addMany (n : Bytes) : ∀ (items : List (Nat × List Bytes)) (s : Store), Desc s (s.addMany n items)
  | [], s => Desc.refl s
  | (m, fl) :: rest, s => by
    unfold Store.addMany
    exact Desc.trans (desc_add s n m fl) (desc_addMany n rest _)

theorem desc_copy (s : Store) (src : Bytes) (ranks : List Nat) (dst : Bytes) : Desc s (s.copy src ranks dst).1 := by
  unfold Store.copy
  split
  · exact Desc.refl s
  · split
    · exact Desc.refl s
    · split
      · exact Desc.refl s
      · simp only []
        split
        · exact Desc.refl s
        · exact desc_addMany _ _ _

theorem desc_uidCopy (s : Store) (src : Bytes) (uids : List Nat) (dst : Bytes) : Desc s (s.uidCopy src uids dst).1 := by
  unfold Store.uidCopy
  split
  · exact Desc.refl s
  · split
    · exact Desc.refl s
    · split
      · exact Desc.refl s
      · exact desc_addMany _ _ _

theorem desc_move (s s' : Store) (src : Bytes) (l : Link) (dst : Bytes) (fl : List Bytes)
    (h : s.move src l dst fl = some s') : Desc s s' := by
  unfold Store.move at h
  split at h
  · cases h
  · split at h
    · cases h
    · simp only [Option.some.injEq] at h
      subst h
      exact Desc.trans (desc_add s dst l.msg fl) (desc_modify _ src _ (by intro b; simp))

theorem desc_storeOne (s : Store) (box : Bytes) (l : Link) (rank : Nat) (new : List Bytes) (mode : Flags.Mode) :
    Desc s (s.storeOne box l rank new mode).1 := by
  have hset : ∀ (t : Store) (g : Link → Link), Desc t (t.modify box (fun b => { b with links := b.links.map g })) :=
    fun t g => desc_modify t box _ (by intro b; simp)
  unfold Store.storeOne
  simp only []
  split
  · split
    · rename_i s' hm; exact desc_move _ _ _ _ _ _ hm
    · exact hset s _
  · split
    · split
      · rename_i s' hm; exact desc_move _ _ _ _ _ _ hm
      · exact hset s _
    · exact hset s _

theorem desc_storeUid (box : Bytes) (new : List Bytes) (mode : Flags.Mode) :
    ∀ (uids : List Nat) (s : Store), Desc s (s.storeUid box new mode uids).1
  | [], s => Desc.refl s
  | u :: us, s => by
    unfold Store.storeUid
    split
    · exact desc_storeUid box new mode us s
    · simp only []
      exact Desc.trans (desc_storeOne s box _ _ new mode) (desc_storeUid box new mode us _)

theorem desc_storeSeq (s : Store) (box : Bytes) (new : List Bytes) (mode : Flags.Mode) (ranks : List Nat) :
    Desc s (s.storeSeq box new mode ranks).1 := by
  unfold Store.storeSeq
  split
  · exact Desc.refl s
  · exact desc_storeUid box new mode _ s

theorem desc_expungeBy (s : Store) (box : Bytes) (doomed : Link → Bool) : Desc s (s.expungeBy box doomed).1 := by
  unfold Store.expungeBy
  split
  · exact Desc.refl s
  · exact desc_modify s box _ (by intro b; simp)

theorem desc_newBox (s : Store) (n : Bytes) (now : Nat) : Desc s (s.newBox n now) := by
  unfold Store.newBox
  split
  · exact Desc.refl s
  · refine ⟨by simp, ?_⟩
    intro b' hb'
    simp only [List.mem_append, List.mem_singleton] at hb'
    rcases hb' with hb' | rfl
    · exact Or.inl ⟨b', hb', rfl, Nat.le_refl _⟩
    · exact Or.inr (Nat.le_refl _)

theorem desc_newBoxes (now : Nat) : ∀ (ns : List Bytes) (s : Store), Desc s (s.newBoxes ns now)
  | [], s => Desc.refl s
  | n :: ns, s => by
    unfold Store.newBoxes
    simp only [List.foldl_cons]
    exact Desc.trans (desc_newBox s n now) (desc_newBoxes now ns _)

theorem desc_create (s : Store) (arg : Bytes) (now : Nat) : Desc s (s.create arg now).1 := by
  unfold Store.create
  simp only []
  split
  · exact Desc.refl s
  · split
    · exact Desc.refl s
    · split
      · exact Desc.refl s
      · split
        · exact Desc.refl s
        · exact Desc.trans (desc_newBoxes now _ s) (desc_newBox _ _ now)

theorem desc_delete (s : Store) (arg : Bytes) : Desc s (s.delete arg).1 := by
  unfold Store.delete
  simp only []
  repeat' split
  all_goals first
    | exact Desc.refl s
    | (refine ⟨Nat.le_refl _, ?_⟩
       intro b' hb'
       exact Or.inl ⟨b', (List.mem_filter.mp hb').1, rfl, Nat.le_refl _⟩)

theorem desc_rename (s : Store) (o n : Bytes) (now : Nat) : Desc s (s.rename o n now).1 := by
  unfold Store.rename
  simp only []
  split
  · exact Desc.refl s
  · split
    · exact Desc.refl s
    · split
      · exact Desc.refl s
      · split
        · split
          · exact Desc.refl s
          · split
            · exact Desc.refl s
            · rename_i ib hib
              refine ⟨by simp, ?_⟩
              intro b' hb'
              simp only [List.mem_append, List.mem_map, List.mem_singleton] at hb'
              rcases hb' with ⟨b, hb, rfl⟩ | rfl
              · refine Or.inl ⟨b, hb, ?_, ?_⟩ <;> (by_cases h : b.name = inboxName <;> simp [h])
              · exact Or.inr (Nat.le_refl _)
        · split
          · exact Desc.refl s
          · split
            · exact Desc.refl s
            · split
              · refine Desc.trans (desc_newBoxes now (ancestors (trimQuotes n)) s) ?_
                refine ⟨Nat.le_refl _, ?_⟩
                intro b' hb'
                obtain ⟨b, hb, rfl⟩ := List.mem_map.mp hb'
                exact Or.inl ⟨b, hb, rfl, Nat.le_refl _⟩
              · exact desc_newBoxes now _ s

theorem desc_subscribe (s : Store) (a : Bytes) : Desc s (s.subscribe a).1 := by
  unfold Store.subscribe
  simp only []
  split
  · exact Desc.refl s
  · split
    · exact Desc.refl s
    · exact desc_subs s _

theorem desc_unsubscribe (s : Store) (a : Bytes) : Desc s (s.unsubscribe a).1 := by
  unfold Store.unsubscribe
  simp only []
  split
  · exact Desc.refl s
  · split
    · exact desc_subs s _
    · exact Desc.refl s

theorem desc_step (s : Store) (op : Op) : Desc s (step s op) := by
  cases op with
  | add b m f => exact desc_add s b m f
  | copy a r d => exact desc_copy s a r d
  | uidCopy a u d => exact desc_uidCopy s a u d
  | store b n m r => exact desc_storeSeq s b n m r
  | uidStore b n m u => exact desc_storeUid b n m u s
  | expunge b => exact desc_expungeBy s b _
  | uidExpunge b u => exact desc_expungeBy s b _
  | create a now => exact desc_create s a now
  | delete a => exact desc_delete s a
  | rename o n now => exact desc_rename s o n now
  | subscribe a => exact desc_subscribe s a
  | unsubscribe a => exact desc_unsubscribe s a

theorem desc_run : ∀ (ops : List Op) (s : Store), Desc s (run s ops)
  | [], s => Desc.refl s
  | op :: ops, s => by
    unfold run
    simp only [List.foldl_cons]
    exact Desc.trans (desc_step s op) (desc_run ops _)

/-- with distinct incarnation numbers below `nextInc` in the earlier store (part of `Inv`), descent is monotonicity of
UIDNEXT per incarnation -/
theorem uidNext_le_of_desc {s s' : Store} (hi : Inv s) (hd : Desc s s') :
    ∀ b ∈ s.boxes, ∀ b' ∈ s'.boxes, b'.inc = b.inc → b.uidNext ≤ b'.uidNext := by
  intro b hb b' hb' hinc
  rcases hd.2 b' hb' with ⟨b0, hb0, hinc0, hle⟩ | hnew
  · have : b0 = b := eq_of_key (·.inc) hi.incs hb0 hb (hinc0.trans hinc)
    subst this; exact hle
  · have := hi.incLt b hb
    omega

end Raven.Mail
