/-! Byte strings: Go `string`s are sequences of octets, so every model works over `List UInt8`. -/
namespace Raven

abbrev Byte := UInt8
abbrev Bytes := List UInt8

/-- named octets are notations (not defs) so that `simp`/`decide` see the literals -/
notation "b_star"  => (42 : UInt8)   -- '*'
notation "b_pct"   => (37 : UInt8)   -- '%'
notation "b_slash" => (47 : UInt8)   -- '/'
notation "b_sp"    => (32 : UInt8)
notation "b_tab"   => (9 : UInt8)
notation "b_cr"    => (13 : UInt8)
notation "b_lf"    => (10 : UInt8)
notation "b_dot"   => (46 : UInt8)
notation "b_colon" => (58 : UInt8)
notation "b_comma" => (44 : UInt8)
notation "b_dq"    => (34 : UInt8)   -- '"'
notation "b_bs"    => (92 : UInt8)   -- '\\'
notation "b_lp"    => (40 : UInt8)
notation "b_rp"    => (41 : UInt8)
notation "b_lb"    => (123 : UInt8)  -- '{'
notation "b_rb"    => (125 : UInt8)  -- '}'
notation "b_us"    => (95 : UInt8)   -- '_'
notation "b_0"     => (48 : UInt8)

def ofString (s : String) : Bytes := s.toUTF8.toList

def isUpper (c : Byte) : Bool := 65 ≤ c && c ≤ 90
def isLower (c : Byte) : Bool := 97 ≤ c && c ≤ 122
def isDigit (c : Byte) : Bool := 48 ≤ c && c ≤ 57
/-- `strings.ToUpper` restricted to ASCII (the harness never sends non-ASCII letters where case matters) -/
def toUpperB (c : Byte) : Byte := if isLower c then c - 32 else c
def toLowerB (c : Byte) : Byte := if isUpper c then c + 32 else c
def toUpper (s : Bytes) : Bytes := s.map toUpperB
def toLower (s : Bytes) : Bytes := s.map toLowerB

/-- Go's `unicode.IsSpace` on ASCII: `\t \n \v \f \r ' '` -/
def isSpace (c : Byte) : Bool := c = 32 || (9 ≤ c && c ≤ 13)

/-- hex -/
def hexDigit (n : Nat) : Char := if n < 10 then Char.ofNat (48 + n) else Char.ofNat (87 + n)
def toHex (s : Bytes) : String :=
  String.ofList (s.flatMap fun b => [hexDigit (b.toNat / 16), hexDigit (b.toNat % 16)])
def hexVal (c : Char) : Nat :=
  if '0' ≤ c ∧ c ≤ '9' then c.toNat - 48 else if 'a' ≤ c ∧ c ≤ 'f' then c.toNat - 87 else 0
def unhexL : List Char → Bytes
  | a :: b :: r => UInt8.ofNat (hexVal a * 16 + hexVal b) :: unhexL r
  | _ => []
/-- `-` denotes the empty string on the wire (so that every argument is a non-empty token) -/
def unhex (s : String) : Bytes := if s = "-" then [] else unhexL s.toList
def hexOut (s : Bytes) : String := if s.isEmpty then "-" else toHex s

end Raven

open Lean in
/-- `b!"text"` is the explicit list of the UTF-8 octets of the literal (string literals themselves do not
reduce in the kernel, explicit lists do) -/
macro "b!" s:str : term => do
  let bs := s.getString.toUTF8.toList
  let xs := bs.toArray.map (fun b => Syntax.mkNumLit (toString b.toNat))
  `(([$xs,*] : List UInt8))
