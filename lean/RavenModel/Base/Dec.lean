import RavenModel.Base.Bytes
/-! Decimal printing (`fmt.Sprintf("%d")` on naturals) and `strconv.Atoi` -/
namespace Raven.Dec
open Raven

def digitChar (d : Nat) : UInt8 := UInt8.ofNat (48 + d)

/-- most significant digit first -/
def toDigits (n : Nat) : List Nat :=
  if h : n < 10 then [n] else toDigits (n / 10) ++ [n % 10]
termination_by n
decreasing_by omega

def ofDigits (ds : List Nat) : Nat := ds.foldl (fun a d => a * 10 + d) 0

theorem ofDigits_append (a : List Nat) (d : Nat) : ofDigits (a ++ [d]) = ofDigits a * 10 + d := by
  simp [ofDigits, List.foldl_append]

theorem ofDigits_toDigits (n : Nat) : ofDigits (toDigits n) = n := by
  induction n using Nat.strongRecOn with
  | _ n ih =>
    rw [toDigits]
    split
    · simp [ofDigits]
    · rw [ofDigits_append, ih (n / 10) (by omega)]; omega

theorem toDigits_lt (n : Nat) : ∀ d ∈ toDigits n, d < 10 := by
  induction n using Nat.strongRecOn with
  | _ n ih =>
    rw [toDigits]
    split
    · intro d hd; simp at hd; omega
    · intro d hd
      simp only [List.mem_append, List.mem_singleton] at hd
      rcases hd with hd | rfl
      · exact ih (n/10) (by omega) d hd
      · omega

def print (n : Nat) : Bytes := (toDigits n).map digitChar

def digitVal (b : UInt8) : Nat := b.toNat - 48

/-- unsigned fragment of strconv.Atoi: non-empty, all digits -/
def atoi (s : Bytes) : Option Nat :=
  if s.isEmpty || !s.all isDigit then none else some (ofDigits (s.map digitVal))

theorem isDigit_digitChar (d : Nat) (h : d < 10) : isDigit (digitChar d) = true := by
  have : d = 0 ∨ d = 1 ∨ d = 2 ∨ d = 3 ∨ d = 4 ∨ d = 5 ∨ d = 6 ∨ d = 7 ∨ d = 8 ∨ d = 9 := by omega
  rcases this with rfl|rfl|rfl|rfl|rfl|rfl|rfl|rfl|rfl|rfl <;> decide
theorem digitVal_digitChar (d : Nat) (h : d < 10) : digitVal (digitChar d) = d := by
  have : d = 0 ∨ d = 1 ∨ d = 2 ∨ d = 3 ∨ d = 4 ∨ d = 5 ∨ d = 6 ∨ d = 7 ∨ d = 8 ∨ d = 9 := by omega
  rcases this with rfl|rfl|rfl|rfl|rfl|rfl|rfl|rfl|rfl|rfl <;> decide

theorem toDigits_ne_nil (n : Nat) : toDigits n ≠ [] := by
  rw [toDigits]; split <;> simp

theorem atoi_print (n : Nat) : atoi (print n) = some n := by
  unfold atoi print
  have hne : ((toDigits n).map digitChar).isEmpty = false := by
    cases h : toDigits n with
    | nil => exact absurd h (toDigits_ne_nil n)
    | cons a as => simp
  have hall : ((toDigits n).map digitChar).all isDigit = true := by
    rw [List.all_eq_true]
    intro b hb
    obtain ⟨d, hd, rfl⟩ := List.mem_map.mp hb
    exact isDigit_digitChar d (toDigits_lt n d hd)
  have hmap : ((toDigits n).map digitChar).map digitVal = toDigits n := by
    rw [List.map_map]
    conv => rhs; rw [← List.map_id (toDigits n)]
    apply List.map_congr_left
    intro d hd
    exact digitVal_digitChar d (toDigits_lt n d hd)
  simp [hne, hall, hmap, ofDigits_toDigits]


/-- `strconv.Atoi`: optional sign, then the unsigned fragment; values outside int64 are errors -/
def atoiGo (s : Bytes) : Option Int :=
  match s with
  | 45 :: r => match atoi r with
    | some n => if n ≤ 9223372036854775808 then some (-(n : Int)) else none
    | none => none
  | 43 :: r => match atoi r with
    | some n => if n < 9223372036854775808 then some (n : Int) else none
    | none => none
  | _ => match atoi s with
    | some n => if n < 9223372036854775808 then some (n : Int) else none
    | none => none

theorem print_digits (n : Nat) : ∀ c ∈ print n, isDigit c = true := by
  intro c hc
  obtain ⟨d, hd, rfl⟩ := List.mem_map.mp hc
  exact isDigit_digitChar d (toDigits_lt n d hd)

theorem print_ne_nil (n : Nat) : print n ≠ [] := by
  unfold print
  cases h : toDigits n with
  | nil => exact absurd h (toDigits_ne_nil n)
  | cons a as => simp

theorem atoiGo_print (n : Nat) (h : n < 9223372036854775808) : atoiGo (print n) = some (n : Int) := by
  unfold atoiGo
  have hd := print_digits n
  have hne := print_ne_nil n
  cases hp : print n with
  | nil => exact absurd hp hne
  | cons c cs =>
    have hc : isDigit c = true := hd c (by rw [hp]; simp)
    have h1 : c ≠ 45 := by intro e; subst e; exact absurd hc (by decide)
    have h2 : c ≠ 43 := by intro e; subst e; exact absurd hc (by decide)
    split
    · rename_i r heq; simp only [List.cons.injEq] at heq; exact absurd heq.1 h1
    · rename_i r heq; simp only [List.cons.injEq] at heq; exact absurd heq.1 h2
    · rw [← hp, atoi_print]; simp [h]
end Raven.Dec
