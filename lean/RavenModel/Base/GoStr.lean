import RavenModel.Base.Bytes
/-! The pieces of Go's `strings` package the server uses, over octets. -/
namespace Raven.GoStr
open Raven

/-- `strings.Fields` on ASCII white space; `cur` is the current token, reversed -/
def fieldsAux : Bytes → Bytes → List Bytes
  | cur, [] => if cur.isEmpty then [] else [cur.reverse]
  | cur, c :: cs =>
    if isSpace c then (if cur.isEmpty then fieldsAux [] cs else cur.reverse :: fieldsAux [] cs)
    else fieldsAux (c :: cur) cs
def fields (s : Bytes) : List Bytes := fieldsAux [] s

/-- `strings.Join(ts, " ")` -/
def join : List Bytes → Bytes
  | [] => []
  | [t] => t
  | t :: u :: ts => t ++ 32 :: join (u :: ts)

/-- a token: non-empty, no white space -/
def Tok (t : Bytes) : Prop := t ≠ [] ∧ ∀ c ∈ t, isSpace c = false

theorem fieldsAux_tok (t cur rest : Bytes) (h : ∀ c ∈ t, isSpace c = false) :
    fieldsAux cur (t ++ rest) = fieldsAux (t.reverse ++ cur) rest := by
  induction t generalizing cur with
  | nil => simp
  | cons c cs ih =>
    have hc := h c (by simp)
    simp only [List.cons_append, fieldsAux, hc, Bool.false_eq_true, if_false]
    rw [ih (c :: cur) (fun x hx => h x (by simp [hx]))]
    simp

theorem fields_join : ∀ ts : List Bytes, (∀ t ∈ ts, Tok t) → fields (join ts) = ts
  | [], _ => by simp [fields, join, fieldsAux]
  | [t], h => by
    have ht := h t (by simp)
    have := fieldsAux_tok t [] [] ht.2
    simp only [List.append_nil] at this
    simp only [fields, join, this, fieldsAux]
    have : t.reverse.isEmpty = false := by
      cases t with
      | nil => exact absurd rfl ht.1
      | cons a as => simp
    simp [this]
  | t :: u :: ts, h => by
    have ht := h t (by simp)
    have ih := fields_join (u :: ts) (fun x hx => h x (by simp [hx]))
    have := fieldsAux_tok t [] (32 :: join (u :: ts)) ht.2
    simp only [List.append_nil] at this
    simp only [fields, join, this, fieldsAux]
    have hne : t.reverse.isEmpty = false := by
      cases t with
      | nil => exact absurd rfl ht.1
      | cons a as => simp
    have hws : isSpace 32 = true := by decide
    simp only [hws, if_true, hne, Bool.false_eq_true, if_false, List.reverse_reverse]
    unfold fields at ih
    rw [ih]

/-- `strings.Split(s, sep)` for a one-octet separator -/
def splitOn (sep : UInt8) : Bytes → List Bytes
  | [] => [[]]
  | c :: cs =>
    if c = sep then [] :: splitOn sep cs
    else match splitOn sep cs with
      | [] => [[c]]          -- unreachable: splitOn never returns []
      | p :: ps => (c :: p) :: ps

def joinWith (sep : UInt8) : List Bytes → Bytes
  | [] => []
  | [p] => p
  | p :: q :: ps => p ++ sep :: joinWith sep (q :: ps)

theorem splitOn_ne_nil (sep : UInt8) (s : Bytes) : splitOn sep s ≠ [] := by
  induction s with
  | nil => simp [splitOn]
  | cons c cs ih =>
    simp only [splitOn]
    split
    · simp
    · split <;> simp

theorem splitOn_nosep (sep : UInt8) (p : Bytes) (h : ∀ c ∈ p, c ≠ sep) : splitOn sep p = [p] := by
  induction p with
  | nil => rfl
  | cons c cs ih =>
    have hc := h c (by simp)
    simp [splitOn, hc, ih (fun x hx => h x (by simp [hx]))]

theorem splitOn_append (sep : UInt8) (p rest : Bytes) (h : ∀ c ∈ p, c ≠ sep) :
    splitOn sep (p ++ sep :: rest) = p :: splitOn sep rest := by
  induction p with
  | nil => simp [splitOn]
  | cons c cs ih =>
    have hc := h c (by simp)
    simp [splitOn, hc, ih (fun x hx => h x (by simp [hx]))]

theorem splitOn_join (sep : UInt8) : ∀ ps : List Bytes, ps ≠ [] → (∀ p ∈ ps, ∀ c ∈ p, c ≠ sep) →
    splitOn sep (joinWith sep ps) = ps
  | [], h, _ => absurd rfl h
  | [p], _, h => by simpa [joinWith] using splitOn_nosep sep p (h p (by simp))
  | p :: q :: ps, _, h => by
    simp only [joinWith]
    rw [splitOn_append sep p _ (h p (by simp)), splitOn_join sep (q :: ps) (by simp) (fun x hx => h x (by simp [hx]))]

/-- `strings.HasPrefix` -/
def hasPrefix : Bytes → Bytes → Bool
  | _, [] => true
  | [], _ :: _ => false
  | c :: cs, p :: ps => c = p && hasPrefix cs ps

def hasSuffix (s suf : Bytes) : Bool := hasPrefix s.reverse suf.reverse

/-- `strings.Contains` (substring) -/
def containsSub : Bytes → Bytes → Bool
  | [], sub => sub.isEmpty
  | c :: cs, sub => hasPrefix (c :: cs) sub || containsSub cs sub

/-- `strings.TrimLeft(s, cutset)` / `TrimRight` / `Trim` for an octet predicate -/
def trimLeftP (p : UInt8 → Bool) : Bytes → Bytes
  | [] => []
  | c :: cs => if p c then trimLeftP p cs else c :: cs
def trimRightP (p : UInt8 → Bool) (s : Bytes) : Bytes := (trimLeftP p s.reverse).reverse
def trimP (p : UInt8 → Bool) (s : Bytes) : Bytes := trimRightP p (trimLeftP p s)
/-- `strings.TrimSpace` (ASCII) -/
def trimSpace (s : Bytes) : Bytes := trimP isSpace s
/-- `strings.Trim(s, "\"")` -/
def trimQuotes (s : Bytes) : Bytes := trimP (· = 34) s
/-- `strings.Trim(s, "()")` -/
def trimParens (s : Bytes) : Bytes := trimP (fun c => c = 40 || c = 41) s
/-- `strings.TrimSuffix` -/
def trimSuffix (s suf : Bytes) : Bytes := if hasSuffix s suf then s.take (s.length - suf.length) else s
def trimPrefix (s pre : Bytes) : Bytes := if hasPrefix s pre then s.drop pre.length else s

/-- `strings.EqualFold` / `ToUpper(x) == ToUpper(y)` on ASCII -/
def equalFold (a b : Bytes) : Bool := toUpper a = toUpper b

/-- the last step of `parseRcptTo` (LMTP): what follows the last `@` in ASCII lower case — domains are case-insensitive
(RFC 5321 §2.4), local parts are left as they are -/
def lowerDomain (a : Bytes) : Bytes :=
  let dom := a.reverse.takeWhile (· ≠ 64)
  if dom.length = a.length then a
  else (a.reverse.drop dom.length).reverse ++ toLower dom.reverse

theorem takeWhile_prefix {α : Type} (p : α → Bool) : ∀ (xs : List α) (y : α) (ys : List α), (∀ x ∈ xs, p x = true) → p y = false →
    (xs ++ y :: ys).takeWhile p = xs
  | [], y, ys, _, hy => by simp [hy]
  | x :: xs, y, ys, hx, hy => by
    simp only [List.cons_append, List.takeWhile, hx x (by simp)]
    rw [takeWhile_prefix p xs y ys (fun z hz => hx z (by simp [hz])) hy]

theorem lowerDomain_at (l d : Bytes) (hd : 64 ∉ d) : lowerDomain (l ++ 64 :: d) = l ++ 64 :: toLower d := by
  unfold lowerDomain
  have hr : (l ++ 64 :: d).reverse = d.reverse ++ 64 :: l.reverse := by simp
  have htw : (l ++ 64 :: d).reverse.takeWhile (· ≠ 64) = d.reverse := by
    rw [hr]
    apply takeWhile_prefix
    · intro x hx
      have : x ∈ d := by simpa using hx
      simp only [ne_eq, decide_not, Bool.not_eq_eq_eq_not, Bool.not_true, decide_eq_false_iff_not]
      intro h; subst h; exact hd this
    · simp
  simp only [htw]
  have hlen : ¬ d.reverse.length = (l ++ 64 :: d).length := by simp; omega
  simp only [hlen, if_false, hr]
  have : (d.reverse ++ 64 :: l.reverse).drop d.reverse.length = 64 :: l.reverse := by
    rw [List.drop_left]
  rw [this]
  simp

/-- an address without `@` is left alone -/
theorem takeWhile_all {α : Type} (p : α → Bool) : ∀ (xs : List α), (∀ x ∈ xs, p x = true) → xs.takeWhile p = xs
  | [], _ => rfl
  | x :: xs, h => by
    simp only [List.takeWhile, h x (by simp)]
    rw [takeWhile_all p xs (fun z hz => h z (by simp [hz]))]

theorem lowerDomain_noat (a : Bytes) (h : 64 ∉ a) : lowerDomain a = a := by
  unfold lowerDomain
  have htw : a.reverse.takeWhile (· ≠ 64) = a.reverse := by
    apply takeWhile_all
    intro x hx
    have : x ∈ a := by simpa using hx
    simp only [ne_eq, decide_not, Bool.not_eq_eq_eq_not, Bool.not_true, decide_eq_false_iff_not]
    intro h'; subst h'; exact h this
  simp only [htw, List.length_reverse, if_true]

end Raven.GoStr
