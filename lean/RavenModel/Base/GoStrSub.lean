import RavenModel.Base.GoStr
/-! `strings.HasPrefix` and `strings.Contains` as modelled in `GoStr` are what their names say: a prefix, a factor. The
substring keys of SEARCH (`SearchImpl`: FROM, TO, CC, BCC, SUBJECT, HEADER, BODY, TEXT) and the flag / header tests of several
models rest on them; a matcher that is not a factor test (one that restarts wrongly after a partial match, say) differs from
`containsSub` on some input, and the correspondence finds it. -/
namespace Raven.GoStr

theorem hasPrefix_iff : ∀ (s p : Bytes), hasPrefix s p = true ↔ ∃ t, s = p ++ t
  | s, [] => by simp [hasPrefix]
  | [], q :: ps => by simp [hasPrefix]
  | c :: cs, q :: ps => by
    simp only [hasPrefix, Bool.and_eq_true, decide_eq_true_eq, hasPrefix_iff cs ps, List.cons_append, List.cons.injEq]
    constructor
    · rintro ⟨rfl, t, rfl⟩; exact ⟨t, rfl, rfl⟩
    · rintro ⟨t, rfl, rfl⟩; exact ⟨rfl, t, rfl⟩

/-- `containsSub s sub` holds exactly when `sub` occurs in `s`: `s = a ++ sub ++ b` for some `a`, `b` -/
theorem containsSub_iff : ∀ (s sub : Bytes), containsSub s sub = true ↔ ∃ a b, s = a ++ sub ++ b
  | [], sub => by
    simp only [containsSub, List.isEmpty_iff]
    constructor
    · rintro rfl; exact ⟨[], [], rfl⟩
    · rintro ⟨a, b, h⟩
      have := congrArg List.length h
      simp only [List.length_nil, List.length_append] at this
      exact List.eq_nil_of_length_eq_zero (by omega)
  | c :: cs, sub => by
    simp only [containsSub, Bool.or_eq_true, hasPrefix_iff, containsSub_iff cs sub]
    constructor
    · rintro (⟨t, h⟩ | ⟨a, b, h⟩)
      · exact ⟨[], t, by simpa using h⟩
      · exact ⟨c :: a, b, by simp [h]⟩
    · rintro ⟨a, b, h⟩
      cases a with
      | nil => exact Or.inl ⟨b, by simpa using h⟩
      | cons x a' =>
        simp only [List.cons_append, List.cons.injEq] at h
        exact Or.inr ⟨a', b, h.2⟩

end Raven.GoStr
