import RavenModel.Audit.Cmd
import RavenModel.Props.C02
#audit_props Raven.Props.C02
