import RavenModel.Audit.Cmd
import RavenModel.Props.C04
#audit_props Raven.Props.C04
