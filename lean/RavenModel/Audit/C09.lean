import RavenModel.Audit.Cmd
import RavenModel.Props.C09
#audit_props Raven.Props.C09
