import RavenModel.Audit.Cmd
import RavenModel.Props.C18
#audit_props Raven.Props.C18
