import RavenModel.Audit.Cmd
import RavenModel.Props.C06
#audit_props Raven.Props.C06
