import RavenModel.Audit.Cmd
import RavenModel.Props.C12
#audit_props Raven.Props.C12
