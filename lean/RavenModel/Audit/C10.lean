import RavenModel.Audit.Cmd
import RavenModel.Props.C10
#audit_props Raven.Props.C10
