import RavenModel.Audit.Cmd
import RavenModel.Props.C13
#audit_props Raven.Props.C13
