import RavenModel.Audit.Cmd
import RavenModel.Props.C17
#audit_props Raven.Props.C17
