import RavenModel.Audit.Cmd
import RavenModel.Props.C19
#audit_props Raven.Props.C19
