import RavenModel.Audit.Cmd
import RavenModel.Props.C07
#audit_props Raven.Props.C07
