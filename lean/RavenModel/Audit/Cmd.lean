import Lean
open Lean Elab Command

/-- `#audit_props ns` prints one JSON line per theorem in namespace `ns`: name and the axioms it depends on -/
elab "#audit_props " ns:ident : command => do
  let env ← getEnv
  let nsName := ns.getId
  let mut rows : Array String := #[]
  for (n, ci) in env.constants.toList do
    if n.getPrefix == nsName && !n.isInternal then
      match ci with
      | .thmInfo _ =>
        let axs ← liftCoreM (collectAxioms n)
        let axNames := axs.toList.map (fun a => "\"" ++ toString a ++ "\"")
        rows := rows.push ("AUDIT {\"theorem\":\"" ++ toString n ++ "\",\"axioms\":[" ++ ", ".intercalate axNames ++ "]}")
      | _ => pure ()
  for r in rows.qsort (· < ·) do
    IO.println r
