import RavenModel.Audit.Cmd
import RavenModel.Props.C11
#audit_props Raven.Props.C11
