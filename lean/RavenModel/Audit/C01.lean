import RavenModel.Audit.Cmd
import RavenModel.Props.C01
#audit_props Raven.Props.C01
