import RavenModel.Audit.Cmd
import RavenModel.Props.C03
#audit_props Raven.Props.C03
