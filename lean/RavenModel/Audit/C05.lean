import RavenModel.Audit.Cmd
import RavenModel.Props.C05
#audit_props Raven.Props.C05
