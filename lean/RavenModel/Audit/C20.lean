import RavenModel.Audit.Cmd
import RavenModel.Props.C20
#audit_props Raven.Props.C20
