import RavenModel.Audit.Cmd
import RavenModel.Props.C08
#audit_props Raven.Props.C08
