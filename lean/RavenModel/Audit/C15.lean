import RavenModel.Audit.Cmd
import RavenModel.Props.C15
#audit_props Raven.Props.C15
