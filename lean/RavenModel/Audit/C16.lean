import RavenModel.Audit.Cmd
import RavenModel.Props.C16
#audit_props Raven.Props.C16
