import RavenModel.Audit.Cmd
import RavenModel.Props.C14
#audit_props Raven.Props.C14
