import RavenModel.Base.Bytes
import RavenModel.Model.Wildcard
import RavenModel.Model.WildcardDP
